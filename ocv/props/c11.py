"""C11 - LPF/BPF: linear zero-phase Bessel filters, unit DC gain, -6 dB at cutoff (devices.LPF, devices.BPF)."""
from __future__ import annotations

import ast

from ..absint import Interp, ObjV
from ..forms import Const, Form, TupleV, mk_fn, vkey
from ..rules import S, check_late_binding
from ..srcmodel import src_of

EXPLANATION = (
    "Call-site rules on devices.LPF and devices.BPF through the value-form interpreter. C11.1: the prototype comes from "
    "scipy.signal.bessel with btype='low', output='sos', norm='mag' (the -3 dB-at-Wn normalisation), N = the order argument, "
    "fs = the sampling rate in force at call time (gv.fs, or the fs argument of LPF), Wn = BW (LPF) / BW/2 (BPF); positional and "
    "keyword forms are both resolved through the scipy signature. C11.2: signal and noise are each filtered by exactly one "
    "scipy.signal.sosfiltfilt call (forward-backward: zero phase, 2x3 dB at cutoff, unit DC gain) with the same sos object on the "
    "last axis, output.signal depends only on input.signal and output.noise only on input.noise, and nothing else (no rescaling, "
    "clipping, data-dependent branch) lies between input and output except real-part extraction in LPF => the map is linear and "
    "row-independent. C11.3: retH = fftshift of sosfreqz(sos, worN=signal.size, fs=fs, whole=True)[1]. C11.4: results are built on a "
    "copy (input[:]); an ndarray given to LPF is wrapped and treated as noise-free. "
    "Trusted: scipy's documented semantics of bessel(norm='mag')/sosfiltfilt. Not decided: the numbers (6.0 dB, monotonic roll-off).")
EXPLANATION += (" Added after the audit wave: C11.2 the edge padding handed to sosfiltfilt is capped by the input length (scipy's default 3*(2*sections+1) exceeds the 16-sample bound of the statement for orders 5..8), and LPF promotes integer samples to a floating type before filtering (the odd edge extension wraps in uint8).")
EXPLANATION += (" Second audit wave: C11.6 (open known finding) LPF and BPF apply sosfiltfilt with the odd edge extension: on a record shorter than the filter's memory the pedestal 2*x[0] is held across the output and a stationary tone gains power; holds for the even / constant extension.")
TRUSTED = ["scipy.signal.bessel(norm='mag') has unit DC gain and -3 dB at Wn", "scipy.signal.sosfiltfilt is linear, zero-phase, squares the magnitude", "scipy.signal.sosfreqz"]

BESSEL_SIG = ["N", "Wn", "btype", "analog", "output", "norm", "fs"]
BESSEL_DEF = {"btype": Const("low"), "analog": Const(False), "output": Const("ba"), "norm": Const("phase"), "fs": Const(None)}


def bind(rec, sig, defaults):
    out = dict(defaults)
    for i, a in enumerate(rec.args):
        if i < len(sig):
            out[sig[i]] = a
    out.update(rec.kwargs)
    return out


def check_bessel(ctx, fi, it, case, want_wn, want_fs, order_param):
    recs = [r for r in it.calls if r.callee == "scipy.signal.bessel"]
    if len(recs) != 1:
        alt = [r for r in it.calls if r.callee and r.callee.startswith("scipy.signal.") and r.callee.split(".")[-1] in ("butter", "cheby1", "cheby2", "ellip", "iirfilter", "firwin")]
        if alt:
            ctx.violation("C11.1", fi, alt[0].node, src_of(alt[0].node), "the prototype is not a Bessel filter (documented: Bessel, norm='mag')")
        else:
            ctx.unknown("C11.1", fi, fi.node, f"{fi.name} [{case}] filter design", f"expected one scipy.signal.bessel call, found {len(recs)}")
        return None
    r = recs[0]
    b = bind(r, BESSEL_SIG, BESSEL_DEF)
    problems = []
    if b.get("btype") != Const("low") and b.get("btype") != Const("lowpass"):
        problems.append(f"btype={b.get('btype')!r} (must be 'low')")
    if b.get("output") != Const("sos"):
        problems.append(f"output={b.get('output')!r} (must be 'sos')")
    if b.get("norm") != Const("mag"):
        problems.append(f"norm={b.get('norm')!r}: only 'mag' puts the -3 dB point of the single pass at Wn (=> -6 dB after filtfilt)")
    if b.get("analog") != Const(False):
        problems.append("analog filter requested")
    if not (isinstance(b.get("N"), Form) and b["N"] == S(order_param)):
        problems.append(f"N={b.get('N')!r} is not the order argument `{order_param}`")
    if not (isinstance(b.get("Wn"), Form) and b["Wn"] == want_wn):
        problems.append(f"Wn={b.get('Wn')!r}, documented cutoff is {want_wn!r}")
    fsv = b.get("fs")
    if not (isinstance(fsv, Form) and fsv == want_fs):
        problems.append(f"fs={fsv!r}, must be the sampling rate in force ({want_fs!r})")
    if problems:
        ctx.violation("C11.1", fi, r.node, f"{fi.name} [{case}]: {src_of(r.node)}", "; ".join(problems))
    else:
        ctx.holds("C11.1", fi, r.node, f"{fi.name} [{case}]: {src_of(r.node)}", f"bessel low/sos/mag, N={order_param}, Wn={want_wn!r}, fs={want_fs!r}")
    return r.result


_EDGE = {}


def rule_edge_extension(ctx):
    """C11.6 sosfiltfilt pads the record with its ODD extension by default and starts from the steady state of a constant x[0]: the
    extended record rides on a pedestal of 2*x[0].  When the record (hence the padding, at most len-1 samples) is shorter than the
    filter's memory the low-pass holds that pedestal across the whole output: a tone that fills a 17-sample record with whole
    periods leaves LPF(0.0101*fs, order 8) with 10.7 times its power (BPF: 5.4 times) - "never increase the power of a stationary
    tone" fails for records of up to about 33 samples with low cutoffs.  With the even extension the worst ratio is below 1."""
    for q, calls in sorted(_EDGE.items()):
        fi = ctx.pkg.func(q)
        label = f"{fi.name}: edge extension of the zero-phase filter adds no pedestal (padtype is not 'odd')"
        odd = [n for n, is_odd in calls if is_odd]
        if odd:
            ctx.violation("C11.6", fi, odd[0], label, f"{len(odd)} of {len(calls)} sosfiltfilt applications use scipy's default odd extension: on a record shorter than the filter's memory the "
                          "pedestal 2*x[0] of the extension is held across the output and a stationary tone GAINS power (x10.7 for 17 samples, cutoff 0.0101*fs, order 8)")
        else:
            ctx.holds("C11.6", fi, calls[0][0], label, "even / constant extension")
    _EDGE.clear()


def check_apply(ctx, fi, it, case, out, node, sos, sig_in, noise_in, real_part):
    """output fields are [real](sosfiltfilt(sos, x[, axis=-1]))"""
    for fld, xin in (("signal", sig_in), ("noise", noise_in)):
        v = out.fields.get(fld)
        if xin is None:
            ok = isinstance(v, Const) and v.v is None or (isinstance(v, Form) and v.sym_name() == "input.noise")
            ctx.check("C11.2", ok, fi, node, f"{fi.name} [{case}] output.{fld} = {v!r}"[:300], "no component invented", "a noise component appears for a noise-free input")
            continue
        cur = v
        a = cur.single_atom() if isinstance(cur, Form) else None
        # a cast of the filtered samples to a floating type holds every value; a cast to anything else (the input's own dtype, an
        # integer type) truncates them and is reported below as an extra nonlinearity
        while a and a[0] == "fn" and a[1] == "astype" and len(a[2]) >= 2 and any(k in repr(a[2][1]) for k in ("class 'float'", "class float", "float64", "complex128", "class 'complex'", "class complex", "longdouble")):
            cur = a[2][0]
            a = cur.single_atom() if isinstance(cur, Form) else None
        had_real = False
        if a and a[0] == "fn" and a[1] == "real":
            had_real = True
            cur = a[2][0]
            a = cur.single_atom() if isinstance(cur, Form) else None
        if not (a and a[0] == "fn" and a[1] == "scipy.signal.sosfiltfilt"):
            other = [x for x in (v.atoms() if isinstance(v, Form) else []) if x[0] == "fn" and x[1].startswith("scipy.signal.")]
            if other and not any(x[1] == "scipy.signal.sosfiltfilt" for x in other):
                ctx.violation("C11.2", fi, node, f"{fi.name} [{case}] output.{fld} = {v!r}"[:300],
                              f"component is filtered with {other[0][1]}, not the forward-backward scipy.signal.sosfiltfilt: a delay is introduced and the cutoff attenuation is 3 dB, not 6 dB")
            else:
                ctx.violation("C11.2", fi, node, f"{fi.name} [{case}] output.{fld} = {v!r}"[:300],
                              "component is not exactly one sosfiltfilt pass of the input component (extra scaling/offset/nonlinearity breaks linearity or unit DC gain)")
            continue
        args, kw = a[2], dict(a[3])
        probs = []
        # the samples handed to the filter may be promoted to a floating type first (integer samples - the uint8 slots of a bit
        # sequence - would wrap in the filter's odd edge extension): result_type(x, float) holds every value of x
        xa = args[1].single_atom() if len(args) > 1 and isinstance(args[1], Form) else None
        if xa and xa[0] == "fn" and xa[1] == "astype" and len(xa[2]) >= 2 and any(k in repr(xa[2][1]) for k in ("result_type(", "class 'float'", "class float", "float64", "complex128", "longdouble")) \
                and not any(k in repr(xa[2][1]) for k in ("int", "uint", "bool", "float32", "float16")):
            args = (args[0], xa[2][0]) + tuple(args[2:])
            promoted = True
        else:
            promoted = False
        if fi.name == "LPF":
            # LPF takes plain arrays of any real dtype (the uint8 slots of a binary_sequence, integer sample counts): scipy filters them in
            # their own dtype and the odd edge extension 2*x[0] - x[k] wraps for unsigned / narrow integers - linearity fails at the edges
            ctx.check("C11.2", promoted, fi, node, f"{fi.name} [{case}] {fld}: samples promoted to a floating type before filtering", "astype(result_type(x, float))",
                      "integer-typed samples are filtered in their own dtype: the filter's edge extension 2*x[0]-x[k] wraps (uint8 0/1 waveform: first samples off by up to 0.3), "
                      "F(1.0*x) differs from 1.0*F(x)")
        # edge padding: scipy's default 3*(2*sections+1) grows with the order (27 samples for n = 8) - the statement covers every input
        # longer than 16 samples for orders 1..8, so the padding has to be limited to what the record can give (len - 1)
        pl = kw.get("padlen")
        pla = pl.single_atom() if isinstance(pl, Form) else None
        ok_pad = bool(pla and pla[0] == "fn" and pla[1] in ("min", "minimum") and any(isinstance(x_, Form) and any(at[0] == "fn" and at[1] in ("siglen", "size", "len") or (at[0] == "sym" and at[1].endswith((".size", ".shape"))) or (at[0] == "attr" and at[2] in ("size", "shape")) for at in x_.atoms()) for x_ in pla[2]))
        if ok_pad and fi.name == "BPF":
            # BPF filters (2, N) two-polarisation arrays along the last axis: the record length is N, `.size` counts both rows (2N) and
            # leaves the cap too loose - orders 5..8 then reject two-polarisation records of 17..27 samples again
            whole = [at for x_ in pla[2] if isinstance(x_, Form) for at in x_.atoms() if (at[0] == "sym" and at[1].endswith(".size")) or (at[0] == "attr" and at[2] == "size")]
            ctx.check("C11.2", not whole, fi, node, f"{fi.name} [{case}] {fld}: edge padding capped by the length along the filtered axis", "len() / shape[-1], not the element count of both rows",
                      f"the padding is capped by {repr(Form.atom(whole[0])) if whole else ''} - 1: for a two-polarisation (2, N) field that is 2N - 1, not N - 1, so sosfiltfilt is again asked for more padding than a "
                      "17..27-sample record has (ValueError for orders 5..8) while each polarisation alone filters fine")
        ctx.check("C11.2", ok_pad, fi, node, f"{fi.name} [{case}] {fld}: edge padding padlen={pl!r}"[:200], "min(default, record length - 1)",
                  "sosfiltfilt runs with its default edge padding 3*(2*sections+1): 18..27 samples for orders 5..8, so inputs of 17..27 samples - longer than the 16-sample padding the statement "
                  "speaks of - are rejected with ValueError instead of being filtered")
        if vkey(args[0]) != vkey(sos):
            probs.append("a different sos object than the designed prototype is applied")
        if not (isinstance(args[1], Form) and args[1] == xin):
            probs.append(f"filters {args[1]!r}, expected the input's own {fld} ({xin!r}): components/rows are mixed")
        ax = kw.get("axis", args[2] if len(args) > 2 else Form.num(-1))
        if not (isinstance(ax, Form) and ax == Form.num(-1)):
            probs.append(f"axis={ax!r}: rows (polarisations) are not filtered independently along the last axis")
        pt = kw.get("padtype")
        _EDGE.setdefault(fi.qualname, []).append((node, pt is None or (isinstance(pt, Const) and pt.v == "odd")))
        extra = set(kw) - {"axis", "padtype", "padlen"}
        if extra:
            probs.append(f"unexpected keywords {sorted(extra)}")
        if had_real != real_part:
            probs.append("real-part extraction " + ("missing" if real_part else "applied to a complex envelope"))
        if probs:
            ctx.violation("C11.2", fi, node, f"{fi.name} [{case}] output.{fld} = {v!r}"[:300], "; ".join(probs))
        else:
            ctx.holds("C11.2", fi, node, f"{fi.name} [{case}] output.{fld} = sosfiltfilt(sos, input.{fld})", "one zero-phase pass, same sos, last axis")


def run(ctx):
    pkg = ctx.pkg
    _EDGE.clear()
    # ------------------------------------------------------------------ LPF
    fi = pkg.func("devices.LPF")
    for noise in ("none", "notnone"):
        for fsmode in ("default", "given"):
            case = f"electrical_signal noise={noise} fs={fsmode}"
            ass = {"input.noise": noise, "retH": False, "fs": None if fsmode == "default" else "notnone"}
            if fsmode == "given":
                ass["fs"] = ("truth", True)
            it = Interp(pkg, assumptions=ass, param_classes={"input": "electrical_signal"})
            it.keep_astype = True          # a cast of the filtered samples (back to an integer input dtype, say) is not the identity
            outs = it.run(fi)
            rets = [o for o in outs if o.kind == "return"]
            if len(rets) != 1 or not isinstance(rets[0].value, ObjV):
                ctx.unknown("C11.2", fi, fi.node, f"LPF [{case}]", f"{len(rets)} return paths")
                continue
            want_fs = S("gv.fs") if fsmode == "default" else S("fs")
            sos = check_bessel(ctx, fi, it, case, S("BW"), want_fs, "n")
            if sos is None:
                continue
            check_apply(ctx, fi, it, case, rets[0].value, rets[0].node, sos, S("input.signal"), S("input.noise") if noise == "notnone" else None, True)
            if rets[0].value.name is not None:
                ctx.violation("C11.4", fi, rets[0].node, f"LPF [{case}] result object", "the result is the input object itself, not a new object (e.g. a copy input[:]): the caller's signal is overwritten by the filtered one")
            else:
                ctx.holds("C11.4", fi, rets[0].node, f"LPF [{case}] result object", "a newly constructed object (input[:] / constructor), not the input itself")
    # retH
    it = Interp(pkg, assumptions={"input.noise": "none", "retH": True, "fs": None}, param_classes={"input": "electrical_signal"})
    outs = it.run(fi)
    rets = [o for o in outs if o.kind == "return"]
    if len(rets) == 1 and isinstance(rets[0].value, TupleV) and len(rets[0].value.items) == 2:
        H = rets[0].value.items[1]
        fz = [r for r in it.calls if r.callee == "scipy.signal.sosfreqz"]
        bes = [r for r in it.calls if r.callee == "scipy.signal.bessel"]
        ok = False
        why = "retH is not fftshift(sosfreqz(sos, worN=signal.size, fs=fs, whole=True)[1])"
        if len(fz) == 1 and len(bes) == 1:
            r = fz[0]
            b = {"worN": Form.num(512), "whole": Const(False), "fs": Form.num(0)}
            for i, a in enumerate(r.args):
                b[["sos", "worN", "whole", "fs"][i]] = a
            b.update(r.kwargs)
            probs = []
            if vkey(b.get("sos")) != vkey(bes[0].result):
                probs.append("sosfreqz is evaluated on a different filter than the one applied")
            if not (isinstance(b["worN"], Form) and b["worN"] == S("input.signal.size")):
                probs.append(f"worN={b['worN']!r} is not the record length (signal.size): H is on a different frequency grid")
            if b["whole"] != Const(True):
                probs.append("whole=True missing: only half of the grid is returned")
            if not (isinstance(b["fs"], Form) and b["fs"] == S("gv.fs")):
                probs.append(f"fs={b['fs']!r} differs from the rate used for the design")
            want = mk_fn("fftshift", [Form.atom(("idx", r.result, Form.num(1)))])
            if not (isinstance(H, Form) and H == want):
                probs.append("the returned H is not fftshift of sosfreqz's response")
            ok = not probs
            why = "; ".join(probs)
        ctx.check("C11.3", ok, fi, rets[0].node, "LPF retH", "single-pass prototype on the signal's grid, centred", why)
    else:
        ctx.unknown("C11.3", fi, fi.node, "LPF retH", "retH return not a (signal, H) pair")
    # ndarray input: wrapped, noise-free
    it = Interp(pkg, assumptions={"input": ("inst", "numpy.ndarray", "ndarray"), "retH": False, "fs": None})
    outs = it.run(fi)
    rets = [o for o in outs if o.kind == "return"]
    if len(rets) == 1 and isinstance(rets[0].value, ObjV):
        o = rets[0].value
        sig = o.fields.get("signal")
        ok = isinstance(o.fields.get("noise"), Const) and o.fields["noise"].v is None and isinstance(sig, Form) and "input" in sig.syms()
        ctx.check("C11.4", ok, fi, rets[0].node, "LPF [ndarray input]", "wrapped in electrical_signal, noise-free", "an ndarray input is not wrapped as a noise-free electrical_signal")
    else:
        ctx.unknown("C11.4", fi, fi.node, "LPF [ndarray input]", f"{len(rets)} return paths")
    it = Interp(pkg, assumptions={"input": ("notinst", "numpy.ndarray", "ndarray", "electrical_signal")})
    outs = it.run(fi)
    pass  # (clause removed: the property statement names no exception for this case - it was read off the docstring, i.e. the check demanded more than the property)
    # ------------------------------------------------------------------ BPF
    fb = pkg.func("devices.BPF")
    for noise in ("none", "notnone"):
        case = f"noise={noise}"
        it = Interp(pkg, assumptions={"input.noise": noise}, param_classes={"input": "optical_signal"})
        it.keep_astype = True
        outs = it.run(fb)
        rets = [o for o in outs if o.kind == "return"]
        if len(rets) != 1 or not isinstance(rets[0].value, ObjV):
            ctx.unknown("C11.2", fb, fb.node, f"BPF [{case}]", f"{len(rets)} return paths")
            continue
        sos = check_bessel(ctx, fb, it, case, S("BW") / 2, S("gv.fs"), "n")
        if sos is None:
            continue
        check_apply(ctx, fb, it, case, rets[0].value, rets[0].node, sos, S("input.signal"), S("input.noise") if noise == "notnone" else None, False)
        if rets[0].value.name is not None:
            ctx.violation("C11.4", fb, rets[0].node, f"BPF [{case}] result object", "the result is the input object itself, not a new object (e.g. a copy input[:]): the caller's signal is overwritten by the filtered one")
        else:
            ctx.holds("C11.4", fb, rets[0].node, f"BPF [{case}] result object", "a newly constructed object (input[:] / constructor), not the input itself")
    it = Interp(pkg, assumptions={"input": ("notinst", "optical_signal")})
    outs = it.run(fb)
    pass  # (clause removed: the property statement names no exception for this case - it was read off the docstring, i.e. the check demanded more than the property)
    check_late_binding(ctx, "C11.5", ["devices.LPF", "devices.BPF"])
    rule_edge_extension(ctx)
    ctx.require_min("C11.6", 2)
    ctx.require_min("C11.1", 6)
    ctx.require_min("C11.2", 10)
    ctx.require_min("C11.3", 1)
    ctx.require_min("C11.4", 7)
