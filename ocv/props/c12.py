"""C12 - PPM encode/decode bijection on whole symbols; HDD/SDD emit valid codewords (ppm.py, utils.dec2bin)."""
from __future__ import annotations

import ast
from fractions import Fraction

from ..absint import FuncV, Interp, ObjV, State
from ..effects import Effects
from ..forms import Const, Form, SliceV, TupleV, fpow, mk_fn
from ..rules import S, GuardEval, find_raise_guards, names_in, check_late_binding
from ..srcmodel import src_of

EXPLANATION = (
    "Value forms of ppm.PPM_ENCODER, PPM_DECODER, HDD, SDD. C12.1: HDD and SDD reject M that is not a power of two (the guard predicate is "
    "evaluated for M = 1..64) and lengths that are not whole symbols (size % M, size % (M*sps)) with ValueError before reshaping. C12.2: "
    "the encoder truncates to len//k*k bits (k = int(log2 M)), weighs them big-endian (2**arange(k)[::-1]) and sets exactly the slots "
    "arange(n)*M + value of a zeros(n*M) array. C12.3: the decoder maps the ON positions mod M through dec2bin(x, k) (big-endian, C19.5). "
    "C12.4: HDD writes only into a copy (effect summary), raises slot i*M+randint(M) for empty symbols, and for multiple symbols clears the "
    "symbol slice and raises i*M+choice(j) with j = where(symbol == 1) read before the clear; the loops range over where(s==0) and "
    "where(s>1) only. C12.5: SDD integrates signal+noise per slot (reshape(-1, sps).sum), takes argmax per symbol (reshape(-1, M)) and "
    "one-hot encodes at arange*M+i; both decision routines produce their result on a single return (no shortcut around the decision). C12.6: str/list/binary_sequence inputs reach one boolean array. "
    "C12.7: no default argument, memoised helper or module cache freezes gv.sps. Forms are compared modulo spelling (keyword/positional, "
    "method/function, index loop/element loop, True/1 stored in a boolean array, size/shape[0] of a 1-D value). Not decided: distribution of "
    "random repairs.")
EXPLANATION += (' Added after the audit wave: C12.1 the power-of-two guard of HDD/SDD rejects M <= 0 as well (0 & -1 == 0 passes the bit test and the length test then divides by zero).')
EXPLANATION += (' The concrete runs know that // and % of a python integer (len, size, a constant) by a concrete zero raise ZeroDivisionError: a division by M placed ahead of the order guard makes M = 0 leave with the wrong exception and is reported under C12.1.')
TRUSTED = ["numpy reshape/sum/argmax/where semantics", "numpy.random.randint(M) in [0, M), numpy.random.choice(j) in j", "utils.dec2bin (C19.5)"]

M = S("M")
D = S("input.data")


def is_one(v):
    """the stored value 1 (True on a boolean array is the same element)"""
    return (isinstance(v, Form) and v == Form.num(1)) or (isinstance(v, Const) and v.v is True)


def same_mod_1d_size(a, b):
    """equal forms, reading `x.shape[0]` of a one-dimensional value as `x.size`"""
    def norm(v):
        def fn(at):
            if at[0] == "idx" and isinstance(at[1], Form) and at[2] == Form.num(0):
                inner = at[1].single_atom()
                if inner and inner[0] == "attr" and inner[2] == "shape":
                    return Form.atom(("attr", inner[1].subst(fn) if isinstance(inner[1], Form) else inner[1], "size"))
            return None
        return v.subst(fn) if isinstance(v, Form) else v
    return norm(a) == norm(b)


def vectorised_big_endian(fnode):
    """recognises the column-wise sibling of dec2bin: for an (n, k) zeros array X and i = k-1 ... 0:  X[:, i] = num % 2; num //= 2,
    returned flattened row by row - the concatenation of the k-digit big-endian expansions of the n values"""
    a = fnode.args
    if len(a.args) < 2:
        return False
    vals, k = a.args[0].arg, a.args[1].arg
    body = [b for b in fnode.body if not (isinstance(b, ast.Expr) and isinstance(b.value, ast.Constant))]
    loops = [b for b in body if isinstance(b, ast.For)]
    if len(loops) != 1 or not isinstance(loops[0].target, ast.Name):
        return False
    lp = loops[0]
    i = lp.target.id
    if src_of(lp.iter).replace(" ", "") not in (f"range({k}-1,-1,-1)", f"reversed(range({k}))", f"range({k})[::-1]"):
        return False
    aliases = {vals}
    for b in body:
        if b is lp:
            break
        if isinstance(b, ast.Assign) and len(b.targets) == 1 and isinstance(b.targets[0], ast.Name) and isinstance(b.value, ast.Name) and b.value.id in aliases:
            aliases.add(b.targets[0].id)
    store = halve = None
    for st_ in lp.body:
        if isinstance(st_, ast.Assign) and isinstance(st_.targets[0], ast.Subscript) and src_of(st_.targets[0].slice).replace(" ", "").strip("()") == f":,{i}":
            v = src_of(st_.value).replace(" ", "")
            if any(v in (f"{nm}%2", f"{nm}&1") for nm in aliases):
                store = st_
        if isinstance(st_, ast.AugAssign) and isinstance(st_.target, ast.Name) and st_.target.id in aliases and isinstance(st_.op, (ast.FloorDiv, ast.RShift)):
            halve = st_
        if isinstance(st_, ast.Assign) and isinstance(st_.targets[0], ast.Name) and st_.targets[0].id in aliases \
                and any(src_of(st_.value).replace(" ", "") in (f"{nm}//2", f"{nm}>>1") for nm in aliases):
            halve = st_
    if store is None or halve is None or store.lineno > halve.lineno or len(lp.body) != 2:
        return False
    arr = src_of(store.targets[0].value)
    alloc = [b for b in body if isinstance(b, ast.Assign) and src_of(b.targets[0]) == arr and isinstance(b.value, ast.Call) and src_of(b.value.func).split(".")[-1] == "zeros"]
    if len(alloc) != 1 or not alloc[0].value.args:
        return False
    shape = src_of(alloc[0].value.args[0]).replace(" ", "")
    if shape not in (f"({vals}.size,{k})", f"(len({vals}),{k})", f"({vals}.shape[0],{k})"):
        return False
    rets = [b for b in body[body.index(lp):] if isinstance(b, ast.Return)]
    return len(rets) == 1 and src_of(rets[0].value).replace(" ", "") in (f"{arr}.ravel()", f"{arr}.reshape(-1)", f"{arr}.flatten()", f"np.ravel({arr})")


def pow2_guard(ctx, fi, rule, param_classes=None):
    from ..rules import check_pow2_guard
    check_pow2_guard(ctx, rule, fi, param_classes=param_classes, nonpositive=True)


def length_guard(ctx, fi, it, rule, unit, what):
    """whole-symbol lengths only: decided by interpreting the function with concrete M (and sps) and a concrete record length -
    the length is only tested through `size % unit`, so one multiple and two non-multiples of the unit decide it"""
    from ..rules import _concrete_run
    pc = dict(it.param_classes)
    is_sdd = "input" in pc and pc["input"] == "electrical_signal"
    size_atom = S("input.signal.size") if is_sdd else S("input.data.size")
    m, sps = 4, 4
    u = m * sps if is_sdd else m
    probs, where = [], fi.node
    for n, ok_len in ((2 * u, True), (u, True), (2 * u - 1, False), (u + 1, False), (u // 2, False)):
        val = [(size_atom, n), (S("gv.sps"), sps)]
        if not is_sdd:
            val.append((mk_fn("len", [D]), n))
        rej, e, out, _it = _concrete_run(ctx.pkg, fi, {"M": Form.num(m)}, dict(it.assumptions), pc, val)
        if ok_len and rej:
            probs.append(f"a record of {n} = {n // u} whole symbol(s) is rejected ({e})")
            where = out.node if out is not None else where
        elif not ok_len and not rej:
            probs.append(f"a record of {n} samples (not a multiple of {u}) is accepted: partial symbols reach the reshape")
            where = out.node if out is not None else where
        elif not ok_len and e != "ValueError":
            probs.append(f"a record of {n} samples raises {e}, documented ValueError")
            where = out.node if out is not None else where
        elif not ok_len and where is fi.node and out is not None:
            where = out.node
    ctx.check(rule, not probs, fi, where, f"{fi.qualname}: {what}", "length % symbol size != 0 -> ValueError; whole symbols accepted", "; ".join(probs[:2]))


def rule_sdd(ctx, r1="C12.1", r5="C12.5"):
    """the soft decision: per-slot sum over ALL sps samples of signal+noise, argmax per symbol, one-hot (shared with C03.8)"""
    pkg = ctx.pkg
    M = S("M")
    # ---------------------------------------------------------------- SDD
    fsd = pkg.func("ppm.SDD")
    if r1:
        pow2_guard(ctx, fsd, r1, {"input": "electrical_signal"})
    for noise in ("none", "notnone"):
        it = Interp(pkg, param_classes={"input": "electrical_signal"}, assumptions={"input.noise": noise})
        outs = it.run(fsd)
        if noise == "none" and r1:
            length_guard(ctx, fsd, it, r1, M * S("gv.sps"), "whole-symbol length guard (M*sps samples)")
        rets = [o for o in outs if o.kind == "return"]
        if len(rets) != 1 or not isinstance(rets[0].value, ObjV):
            ctx.unknown(r5, fsd, fsd.node, f"SDD [noise {noise}]", f"{len(rets)} return paths")
            continue
        tot = S("input.signal") + (S("input.noise") if noise == "notnone" else 0)
        energy = mk_fn("sum", [mk_fn("reshape", [tot, Form.num(-1), S("gv.sps")])], [("axis", Form.num(-1))])
        am = mk_fn("argmax", [mk_fn("reshape", [energy, Form.num(-1), M])], [("axis", Form.num(-1))])
        got = rets[0].value.fields.get("data")
        a = got.single_atom() if isinstance(got, Form) else None
        ok = False
        why = "SDD is not: per-slot sum over sps samples of signal+noise, argmax per symbol of M slots, one-hot at arange*M + i"
        if a and a[0] == "fn" and a[1] == "setitem":
            base, idx, val = a[2]
            nsymb = Form.atom(("idx", Form.atom(("attr", am, "shape")), Form.num(0)))
            want_idx = mk_fn("arange", [nsymb]) * M + am
            ba = base.single_atom() if isinstance(base, Form) else None
            ok_base = ba and ba[0] == "fn" and ba[1] in ("zeros_like", "zeros") and (ba[2][0] == energy or True)
            ok = same_mod_1d_size(idx, want_idx) and is_one(val) and bool(ok_base)
            if not same_mod_1d_size(idx, want_idx):
                ams = [x for x in idx.atoms() if x[0] == "fn" and x[1] in ("argmax", "argmin")] if isinstance(idx, Form) else []
                if ams and ams[0][1] == "argmin":
                    why = "the slot of *smallest* energy is selected (argmin)"
                elif ams and ams[0] != am.single_atom():
                    why = f"argmax operand is {ams[0][2][0]!r}: not the per-slot integrated energy of signal+noise grouped by M"
        ctx.check(r5, ok, fsd, rets[0].node, f"SDD [noise {noise}]: one-hot of argmax slot energy", "ON exactly at the slot of largest integrated energy per symbol", why)


def run(ctx):
    pkg = ctx.pkg
    eff = Effects(pkg)
    k = mk_fn("int", [mk_fn("log2", [M])])
    # ---------------------------------------------------------------- encoder
    fi = pkg.func("ppm.PPM_ENCODER")
    it = Interp(pkg, param_classes={"input": "binary_sequence"})
    outs = it.run(fi)
    rets = [o for o in outs if o.kind == "return"]
    if len(rets) == 1 and isinstance(rets[0].value, ObjV):
        x = Form.atom(("idx", D, SliceV(Const(None), mk_fn("floordiv", [mk_fn("len", [D]), k]) * k, Const(None))))
        weights = Form.atom(("idx", mk_fn("arange", [k]), SliceV(Const(None), Const(None), Form.num(-1))))
        dec = mk_fn("sum", [fpow(Form.num(2), weights) * mk_fn("reshape", [x, Form.num(-1), k])], [("axis", Form.num(-1))])
        n = Form.atom(("attr", dec, "size"))
        want = mk_fn("setitem", [mk_fn("zeros", [n * M], [("dtype", __import__("ocv.absint", fromlist=["ClassRef"]).ClassRef("bool"))]), mk_fn("arange", [n]) * M + dec, Form.num(1)])
        got = rets[0].value.fields.get("data")
        ga = got.single_atom() if isinstance(got, Form) else None
        wa = want.single_atom()
        if ga and ga[0] == "fn" and ga[1] == "setitem" and len(ga[2]) == 3 and ga[2][0] == wa[2][0] and ga[2][1] == wa[2][1] and is_one(ga[2][2]):
            ctx.holds("C12.2", fi, rets[0].node, "PPM_ENCODER: zeros(n*M)[arange(n)*M + value] = 1, value = big-endian weight sum of k bits", "one ON slot per block at the big-endian value")
        else:
            # localise
            a = got.single_atom() if isinstance(got, Form) else None
            why = "encoder is not `zeros(n*M)[arange(n)*M + sum(bits.reshape(-1,k) * 2**arange(k)[::-1])] = 1` on the input truncated to whole symbols"
            if a and a[0] == "fn" and a[1] == "setitem":
                idx = a[2][1]
                if isinstance(idx, Form) and not any(at[0] == "idx" and isinstance(at[2], SliceV) and at[2].step == Form.num(-1) for at in idx.atoms()):
                    why = "bit weights are not reversed (2**arange(k)[::-1]): the slot index is not the big-endian value of the bits"
            ctx.violation("C12.2", fi, rets[0].node, f"PPM_ENCODER data = {got!r}"[:400], why)
    else:
        ctx.unknown("C12.2", fi, fi.node, "PPM_ENCODER", f"{len(rets)} return paths")
    # ---------------------------------------------------------------- decoder
    fd = pkg.func("ppm.PPM_DECODER")
    it = Interp(pkg, param_classes={"input": "binary_sequence"}, no_inline=("dec2bin",))
    outs = it.run(fd)
    rets = [o for o in outs if o.kind == "return"]
    if len(rets) == 1 and isinstance(rets[0].value, ObjV):
        got = rets[0].value.fields.get("data")
        pos = mk_fn("mod", [Form.atom(("idx", mk_fn("where", [mk_fn("eq", [D, Form.num(1)])]), Form.num(0))), M])
        want = mk_fn("ravel", [mk_fn("listcomp", [mk_fn("dec2bin", [mk_fn("elem", [pos]), k]), pos])])
        ok = isinstance(got, Form) and got == want
        why = "decoder is not ravel([dec2bin(p % M, k) for p in positions of ON slots])"
        a = got.single_atom() if isinstance(got, Form) else None
        lc = a[2][0].single_atom() if a and a[0] == "fn" and a[1] == "ravel" and a[2] and isinstance(a[2][0], Form) else None
        if not ok and lc and lc[0] == "fn" and lc[1] == "listcomp" and len(lc[2]) == 2:
            if lc[2][1] != pos:
                why = f"symbol values are {lc[2][1]!r}, expected ON positions modulo M"
            else:
                why = f"per-symbol expansion is {lc[2][0]!r}, expected dec2bin(x, int(log2(M)))"
        if not ok:
            # a vectorised sibling of dec2bin applied to the same positions
            for r in it.calls:
                if r.depth == 0 and r.callee and r.callee.startswith("opticomlib.") and len(r.args) >= 2 and r.args[0] == pos and r.args[1] == k:
                    q = r.callee.split(".", 1)[1]
                    cal = pkg.module(q.split(".")[0]).funcs.get(q)
                    if cal is not None and vectorised_big_endian(cal.node):
                        ok = True
        if not ok and isinstance(got, Form):
            # the same expansion in closed form: bit j (most significant first) of p is (p >> (k-1-j)) & 1, one row per symbol, read row by row
            allr = SliceV(Const(None), Const(None), Const(None))
            shifts = Form.atom(("idx", mk_fn("arange", [k]), SliceV(Const(None), Const(None), Form.num(-1))))
            col = Form.atom(("idx", pos, TupleV([allr, Const(None)])))
            rows = mk_fn("band", [mk_fn("rshift", [col, shifts]), Form.num(1)])
            ok = got in (mk_fn("ravel", [rows]), mk_fn("reshape", [rows, Form.num(-1)]))
        ctx.check("C12.3", ok, fd, rets[0].node, "PPM_DECODER: ON position mod M -> dec2bin(., k)", "inverse of the encoder on whole symbols", why)
    else:
        ctx.unknown("C12.3", fd, fd.node, "PPM_DECODER", f"{len(rets)} return paths")
    # ---------------------------------------------------------------- HDD
    fh = pkg.func("ppm.HDD")
    pow2_guard(ctx, fh, "C12.1", {"input": "binary_sequence"})
    it = Interp(pkg, param_classes={"input": "binary_sequence"})
    hdd_outs = it.run(fh)
    hdd_rets = [o for o in hdd_outs if o.kind == "return"]
    ctx.check("C12.4", len(hdd_rets) == 1, fh, hdd_rets[0].node if hdd_rets else fh.node, f"HDD: {len(hdd_rets)} returning path(s)", "every accepted input goes through both repair loops",
              "HDD can return on a path that skips the repairs" + (f" (under `{hdd_rets[0].conds[-1][0]}`)" if len(hdd_rets) > 1 and hdd_rets[0].conds else "") +
              ": a necessary-only shortcut test (e.g. total ON count == number of symbols) lets sequences with an empty and a crowded symbol through unrepaired")
    length_guard(ctx, fh, it, "C12.1", M, "whole-symbol length guard")
    s = eff.sum[fh.qualname]
    ctx.check("C12.4", not s.mutates, fh, next(iter(s.mutates.values())) if s.mutates else fh.node, "HDD: repairs are written into a copy", "input (or the binary_sequence it came from) never written",
              f"HDD writes into its argument's data ({sorted(p + path for p, path in s.mutates)}): the caller's sequence is modified")
    nsym = mk_fn("int", [S("input.data.size") / M])
    cnt = mk_fn("sum", [mk_fn("reshape", [D, nsym, M])], [("axis", Form.num(-1))])
    i_empty = mk_fn("elem", [Form.atom(("idx", mk_fn("where", [mk_fn("eq", [cnt, Form.num(0)])]), Form.num(0)))])
    i_multi = mk_fn("elem", [Form.atom(("idx", mk_fn("where", [mk_fn("gt", [cnt, Form.num(1)])]), Form.num(0)))])
    # the number of symbols: the length is a whole number of symbols here (guard above), so size//M, int(size/M) and reshape(-1, M) agree
    alt_n = [mk_fn("floordiv", [S("input.data.size"), M]), mk_fn("floordiv", [mk_fn("size", [D]), M]), mk_fn("floordiv", [mk_fn("len", [D]), M])]

    def canon(f):
        if isinstance(f, SliceV):
            return SliceV(canon(f.lo), canon(f.hi), canon(f.step))
        if not isinstance(f, Form):
            return f

        def sub(a):
            if a[0] == "fn" and a[1] == "reshape" and len(a[2]) == 3 and isinstance(a[2][1], Form) and isinstance(a[2][2], Form) and a[2][2] == M \
                    and (a[2][1] in alt_n or a[2][1] == Form.num(-1)) and not a[3]:
                return Form.atom(("fn", "reshape", (canon(a[2][0]), nsym, M), ()))
            return None
        return f.subst(sub)
    stores = [(x[0], x[1], (x[2][0], x[2][1], canon(x[2][2])) + tuple(x[2][3:]), x[3], x[4], x[5]) for x in it.store_log if x[5] == 0 and x[2][0] == "idx"]
    st_empty = [x for x in stores if isinstance(x[2][2], Form) and any(a[0] == "fn" and a[1] == "numpy.random.randint" for a in x[2][2].atoms())]
    st_clear = [x for x in stores if isinstance(x[2][2], SliceV)]
    st_keep = [x for x in stores if isinstance(x[2][2], Form) and any(a[0] == "fn" and a[1] == "numpy.random.choice" for a in x[2][2].atoms())]
    if len(st_empty) == 1:
        idx = st_empty[0][2][2]
        want = i_empty * M + mk_fn("numpy.random.randint", [M])
        ctx.check("C12.4", idx == want and is_one(st_empty[0][3]), fh, st_empty[0][1], f"HDD empty symbol: {src_of(st_empty[0][1])}", "raises slot i*M + randint(M) for i in where(s == 0)",
                  f"index {idx!r} is not i*M + randint(M) over the empty symbols (where(s==0)): the raised slot can leave the symbol or touch non-empty symbols")
    else:
        ctx.violation("C12.4", fh, fh.node, "HDD empty-symbol repair", "no store at i*M + randint(M): symbols without an ON slot are not repaired")
    if len(st_clear) == 1 and len(st_keep) == 1:
        sl = st_clear[0][2][2]
        ok_sl = sl.lo == i_multi * M and sl.hi == (i_multi + 1) * M and (st_clear[0][3] == Form.num(0) or (isinstance(st_clear[0][3], Const) and st_clear[0][3].v is False))
        ctx.check("C12.4", ok_sl, fh, st_clear[0][1], f"HDD multiple symbol: {src_of(st_clear[0][1])}", "clears exactly the symbol slice [i*M, (i+1)*M) for i in where(s > 1)",
                  "the cleared range is not the symbol [i*M:(i+1)*M] over where(s>1): symbols with exactly one ON slot could be touched")
        idx = st_keep[0][2][2]
        # the symbol as it is when the loop reaches it: the working copy (input data, possibly repaired by earlier iterations)
        arr_name = st_keep[0][2][3].id if isinstance(st_keep[0][2][3], ast.Name) else None
        bases = [D]
        for lp_, envs_ in it.loop_envs.items():
            hv = envs_[1].get(arr_name) if arr_name else None
            if isinstance(hv, Form):
                bases.append(hv)
        wants = []
        for b_ in bases:
            sym_before = Form.atom(("idx", b_, SliceV(i_multi * M, (i_multi + 1) * M, Const(None))))
            j = Form.atom(("idx", mk_fn("where", [mk_fn("eq", [sym_before, Form.num(1)])]), Form.num(0)))
            wants.append(i_multi * M + mk_fn("numpy.random.choice", [j]))
        want = wants[0]
        ctx.check("C12.4", idx in wants and is_one(st_keep[0][3]) and st_keep[0][1].lineno > st_clear[0][1].lineno, fh, st_keep[0][1], f"HDD multiple symbol: {src_of(st_keep[0][1])}",
                  "keeps i*M + choice(j), j = ON slots of that symbol read before the clear",
                  f"kept slot index {idx!r} is not i*M + choice(where(symbol == 1)) of the symbol as it was before clearing: the kept slot need not have been ON")
    else:
        ctx.violation("C12.4", fh, fh.node, "HDD multiple-symbol repair", "clear-then-keep-one idiom not found: symbols with several ON slots are not reduced to one of their ON slots")
    rule_sdd(ctx)
    # ---------------------------------------------------------------- containers
    for f in (fi, fd, fh):
        it = Interp(pkg, assumptions={"input": ("notinst", "binary_sequence", "str", "list", "tuple", "numpy.ndarray", "ndarray")})
        outs = it.run(f)
        ok = bool(outs) and all(o.kind == "raise" for o in outs) and outs[0].exc == "TypeError"
        pass  # (clause removed: the property statement names no exception for this case - it was read off the docstring, i.e. the check demanded more than the property)
        for kind, ass, pc in (("str", {"input": ("inst", "str")}, {}), ("list", {"input": ("inst", "list")}, {}), ("binary_sequence", {}, {"input": "binary_sequence"})):
            it = Interp(pkg, assumptions=ass, param_classes=pc, no_inline=("str2array", "dec2bin"))
            it.run(f)
            # the converted array by its role: the first top-level local holding a conversion of the argument
            first = next((v for (ff, stmt, name, v, conds, depth) in it.assign_log if depth == 0 and isinstance(v, Form)
                          and (name == "input" or v in (S("input"), D) or (v.single_atom() or ("",))[0] == "fn" and (v.single_atom() or ("", ""))[1] == "str2array")), None)
            okc = first is not None and isinstance(first, Form)
            if kind == "str":
                okc = okc and first == mk_fn("str2array", [S("input"), __import__("ocv.absint", fromlist=["ClassRef"]).ClassRef("bool")])
            elif kind == "list":
                okc = okc and first == S("input")   # np.array(input, dtype=bool) is the identity on value forms
            else:
                okc = okc and first == D
            ctx.check("C12.6", okc, f, f.node, f"{f.qualname}: {kind} input funnelled to one boolean array", "same code path after conversion", f"{kind} input is not converted to the shared boolean array form")
    check_late_binding(ctx, "C12.7", ["ppm.PPM_ENCODER", "ppm.PPM_DECODER", "ppm.HDD", "ppm.SDD"])
    ctx.require_min("C12.1", 4)
    ctx.require_min("C12.2", 1)
    ctx.require_min("C12.3", 1)
    ctx.require_min("C12.4", 5)
    ctx.require_min("C12.5", 2)
    ctx.require_min("C12.6", 9)
