"""C13 - analytic BER and receiver-noise formulas agree with the closed forms and with each other."""
from __future__ import annotations

import ast
import itertools
from fractions import Fraction

from ..absint import FuncV, Interp, ObjV, VecV, State
from ..forms import Const, Form, SliceV, TupleV, const_float, fpow, mk_attr, mk_fn, atom_children, subst_value
from ..rules import PI, S, find_raise_guards, names_in, check_late_binding
from ..srcmodel import src_of, norm_src

EXPLANATION = (
    "Sibling-agreement and closed-form rules on polynomial normal forms. C13.2: p_ase, the ON/OFF levels and the total variance "
    "(thermal 4*kB*T*B*R_L*Fn + shot 2*e*mu*B*R_L + signal-ASE 2*mu_ASE*(mu-mu_ASE)*l + ASE-ASE mu_ASE^2*(1-l/2)*l) computed by "
    "utils.p_ase / average_voltages / noise_variances and by the inner function of utils.theory_BER are each compared, for amplified "
    "and unamplified receivers and both modulations, with the receiver model of the statement (callees inlined; f0 <-> c/wavelength). "
    "C13.3: the OOK error probability 1/2[Q((mu1-r)/s1)+Q((r-mu0)/s0)], the PPM hard-decision symbol error "
    "1-Q((r-mu1)/s1)*(1-Q((r-mu0)/s0))^(M-1), the soft-decision integrand (1-Q((dmu+s1 x)/s0))^(M-1)*exp(-x^2/2) with prefactor "
    "1/sqrt(2 pi) over (-inf, inf), and the symbol-to-bit factor M/(2(M-1)) are compared at every site (ook.py, ppm.py, utils.py) modulo "
    "renaming; Q = erfc(x/sqrt2)/2. These forms depend on the levels only through differences (C13.4 follows). C13.5: every estimated "
    "threshold is an element of linspace(mu0, mu1, n); optimum_threshold equals the closed-form root. C13.6: PD's A^2 variances times "
    "R_load^2 and EDFA's P_ase equal the utils terms under B<->fs/2, BW_opt<->fs. C13.7: wrappers are np.vectorize'd. "
    "C13.9: the receiver-model helpers accept the inclusive edge G = 0 dB as they accept G = 20 dB (differential on the set of raising "
    "exits: a presence test written as a truthiness test adds one). Not decided: numerical agreement/monotonicity/quad accuracy.")
EXPLANATION += (" Added after the audit wave: C13.5 the threshold returned by optimum_threshold equals the closed-form root as a rational function (difference zero after clearing denominators: any rearrangement is accepted) and no sum it divides by vanishes identically for S1 = S0 (equal variances are the midpoint case of the statement); C13.3 a spelling of `decision` that the validation of ppm.BER_analizer lets through ('Hard', 'SOFT') is refused with ValueError or computed like its lower-case form.")
EXPLANATION += (' Second audit wave: C13.10 (open known finding) the soft-decision error probability is not formed as 1 - quad(...) with an absolute tolerance (everything below 1.49e-8 is quadrature noise); C13.3 accepts the complement integrated directly (expm1/log1p/exp(k log w) are folded).')
EXPLANATION += (' Third audit wave: C13.11 the threshold grid of utils.theory_BER starts on the OFF level, whose deviation is zero inside the stated ranges (T = 0, ER = inf, no ASE), so its first entry is Q(0/0): the reduction over that grid is nan-ignoring (nanmin) or the grid leaves out the level (r[1:], r[1:-1]); a plain min there returned nan for the whole error probability. C13.12 the objective whose minimiser ppm.THRESHOLD_EST returns is not written as a subtraction from one (syntactic root of the argmin argument, a local name or local function followed): 1 - P(correct) is exactly 0 below 1.1e-16, a plateau on the grid for mu1 - mu0 > 16.4 s, and argmin returns the first index of the plateau; C13.3 still decides that the objective equals the hard-decision symbol error (erfc(-u) = 2 - erfc(u), expm1, log1p and exp(k log w) are folded, so the accurate spelling and the direct one have one normal form).')
EXPLANATION += (' C13.13 the minimiser ook.THRESHOLD_EST returns is the middle of the tie set flatnonzero(cost == min(cost)) (nanmin, where(...)[0], .size spellings accepted): for equal sigmas that is the midpoint even when both tails underflow, which the first of the tied grid points is not.')
EXPLANATION += (' Fourth audit wave: C13.14 the quadrature of each soft-decision formula is split at the knee x = -dmu/s1 of its integrand (points= contains it): on the whole axis quad does not resolve a knee of width s0/s1 below 1e-2 and returns the s0 -> 0 limit at a shifted mu (0.7 - 3 % off, soft above hard). C13.3 accepts integration limits (-inf, inf) or constants beyond +-39. C13.10 now holds on the tree (repaired together with C13.14 by one helper that integrates the complement with epsabs = 0); the clause requires the complement form AND no absolute tolerance. C13.12 also reports a probability near one (Q of a non-positive argument on the grid, or 1 - Q of a non-negative one) used as the argument of a logarithm or the base of a power.')
TRUSTED = ["scipy.special.erfc, scipy.integrate.quad semantics", "numpy.vectorize/linspace/argmin", "scipy.constants h, k, e, c", "utils.idb/idbm/Q (C19)"]

H_ = Form.atom(("c", "scipy.constants.h"))
KB = Form.atom(("c", "scipy.constants.k"))
QE = Form.atom(("c", "scipy.constants.e"))
CC = Form.atom(("c", "scipy.constants.c"))
HALF = Form.num(Fraction(1, 2))


def Q(x):
    return HALF * mk_fn("erfc", [x / fpow(Form.num(2), HALF)])


def ook_pe(mu0, mu1, s0, s1, r):
    return HALF * (Q((mu1 - r) / s1) + Q((r - mu0) / s0))


def ppm_hard(mu0, mu1, s0, s1, r, M):
    return 1 - Q((r - mu1) / s1) * fpow(1 - Q((r - mu0) / s0), M - 1)


def soft_integrand(dmu, s0, s1, x, M):
    return fpow(1 - Q((dmu + s1 * x) / s0), M - 1) * mk_fn("exp", [-x * x / 2])


def model(amplify, M, f0):
    er = mk_fn("exp10", [S("ER") / 10])
    p_avg = mk_fn("exp10", [S("P_avg") / 10 - 3])
    if amplify:
        g = mk_fn("exp10", [S("G") / 10])
        l = S("BW_el") / S("BW_opt")
        p_ase = mk_fn("exp10", [S("NF") / 10]) * H_ * f0 * (g - 1) * S("BW_opt")
    else:
        g, l, p_ase = Form.num(1), Form.num(1), Form.num(0)
    mu_ase = S("r") * p_ase * S("R_L")
    p_on = p_avg * M / (1 + (M - 1) / er)
    p_off = p_on / er
    mu = [S("r") * g * p_off * S("R_L") + mu_ase, S("r") * g * p_on * S("R_L") + mu_ase]
    nf_el = mk_fn("exp10", [S("NF_el") / 10])
    th = 4 * KB * S("T") * S("BW_el") * S("R_L") * nf_el
    terms = []
    for m in mu:
        terms.append({"thermal": th, "shot": 2 * QE * m * S("BW_el") * S("R_L"),
                      "sig-ase": 2 * mu_ase * (m - mu_ase) * l, "ase-ase": mu_ase * mu_ase * (1 - l / 2) * l})
    return {"p_ase": p_ase, "mu_ase": mu_ase, "mu": mu, "terms": terms, "S": [sum(t.values(), Form()) for t in terms]}


def locals_of(it, depth=0):
    env = {}
    for f, stmt, name, val, conds, d in it.assign_log:
        if d == depth:
            env[name] = (val, stmt)
    return env


def vec2(v):
    if isinstance(v, VecV) and len(v.items) == 2 and all(isinstance(i, Form) for i in v.items):
        return v.items
    return None


def diag_terms(ctx, rule, fi, where, got_total, mdl, i, node, names_env):
    """say which physical term is wrong when a total variance differs from the model"""
    label = "OFF" if i == 0 else "ON"
    nf = mk_fn("exp10", [S("NF_el") / 10])
    mods = [("as in the model", Form.num(1)), ("multiplied by the electrical noise figure", nf), ("divided by the electrical noise figure", 1 / nf),
            ("divided by R_L (wrong dimension: not V^2)", 1 / S("R_L")), ("multiplied by R_L", S("R_L")), ("missing", Form.num(0)),
            ("doubled", Form.num(2)), ("halved", Form.num(Fraction(1, 2)))]
    names = list(mdl["terms"][i])
    live = [n for n in names if not mdl["terms"][i][n].is_zero()]
    best = None
    for combo in itertools.product(range(len(mods)), repeat=len(live)):
        nbad = sum(1 for c in combo if c != 0)
        if nbad == 0 or (best is not None and nbad >= best[0]):
            continue
        tot = Form()
        for n in names:
            t = mdl["terms"][i][n]
            if n in live:
                t = t * mods[combo[live.index(n)]][1]
            tot = tot + t
        if tot == got_total:
            best = (nbad, combo)
    if best is not None:
        for n, c in zip(live, best[1]):
            if c != 0:
                ctx.violation(rule, fi, node, f"{where.split(' [')[0]}: {n} variance term", f"[{where}, {label} level] the {n} term is {mods[c][0]} "
                              "(model: thermal 4kB*T*B*R_L*Fn, shot 2e*mu*B*R_L, sig-ASE 2*mu_ASE*(mu-mu_ASE)*l, ASE-ASE mu_ASE^2*(1-l/2)*l)")
        return
    diff = got_total - mdl["S"][i]
    ctx.violation(rule, fi, node, f"{where.split(' [')[0]}: total variance", f"[{where}, {label} level] differs from the model by {diff!r}"[:600])


def ber_kernel(pkg):
    """the function that computes one operating point of utils.theory_BER: the vectorised inner function, or - when that only
    forwards its arguments - the package function it forwards them to"""
    fi = pkg.func("utils.theory_BER.<locals>.temp")
    for _ in range(3):
        body = [s_ for s_ in fi.node.body if not (isinstance(s_, ast.Expr) and isinstance(s_.value, ast.Constant))]
        if len(body) == 1 and isinstance(body[0], ast.Return) and isinstance(body[0].value, ast.Call):
            r = pkg.resolve_expr(fi.module, fi, body[0].value.func)
            if r and r.startswith("opticomlib.") and r.count(".") == 2:
                nxt = pkg.module(r.split(".")[1]).funcs.get(r.split(".", 1)[1])
                if nxt is not None:
                    fi = nxt
                    continue
        break
    return fi


def rule_receiver_model(ctx):
    pkg = ctx.pkg
    f0_w = CC / S("wavelength")
    # ---- stand-alone functions
    fi_p = pkg.func("utils.p_ase")
    for amp in (True, False):
        it = Interp(pkg, assumptions={"amplify": amp, "G": "notnone" if amp else "none", "NF": "notnone" if amp else "none", "BW_opt": "notnone" if amp else "none"})
        outs = it.run(fi_p)
        rets = [o for o in outs if o.kind == "return"]
        m = model(amp, Form.num(2), f0_w)
        if len(rets) != 1 or not isinstance(rets[0].value, Form):
            ctx.unknown("C13.2", fi_p, fi_p.node, f"p_ase [amplify={amp}]", f"{len(rets)} return paths")
        else:
            ctx.check("C13.2", rets[0].value == m["p_ase"], fi_p, rets[0].node, f"p_ase [amplify={amp}] = {rets[0].value!r}", "NF*h*f0*(G-1)*BW_opt (0 when unamplified)",
                      f"differs from the model {m['p_ase']!r}")
    # an unamplified receiver is also asked for with the EDFA keywords still set (one parameter dictionary, `amplify` toggled):
    # "amplified/unamplified" is decided by `amplify`, never by whether G happens to be given
    for modn, (amp, given) in itertools.product(("ook", "ppm"), ((True, True), (False, False), (False, True))):
        M = Form.num(2) if modn == "ook" else S("M")
        m = model(amp, M, f0_w)
        ass = {"modulation": modn, "amplify": amp}
        for k in ("G", "NF", "BW_opt"):
            ass[k] = "notnone" if given else "none"
        case = f"{modn}, amplify={amp}" + (", EDFA keywords given" if given and not amp else "")
        fi_a = pkg.func("utils.average_voltages")
        it = Interp(pkg, assumptions=ass)
        outs = it.run(fi_a)
        rets = [o for o in outs if o.kind == "return"]
        _none_arith(ctx, fi_a, it, case)
        ok = len(rets) == 1 and isinstance(rets[0].value, TupleV) and len(rets[0].value.items) == 2 and vec2(rets[0].value.items[0])
        if not ok:
            ctx.unknown("C13.2", fi_a, fi_a.node, f"average_voltages [{case}]", "return is not (levels[2], mu_ASE)")
        else:
            mu = vec2(rets[0].value.items[0])
            for i, lab in ((0, "OFF"), (1, "ON")):
                if mu[i] == m["mu"][i]:
                    ctx.holds("C13.2", fi_a, rets[0].node, f"average_voltages [{case}] mu_{lab}", "r*g*p*R_L + mu_ASE")
                else:
                    extra = ""
                    if not amp and "G" in mu[i].syms():
                        extra = " -- the EDFA gain is applied although amplify=False (documented: G only used if amplify=True; with the default G=None this raises TypeError)"
                    ctx.violation("C13.2", fi_a, rets[0].node, f"average_voltages [{case}] mu_{lab} = {mu[i]!r}"[:500], f"differs from the model {m['mu'][i]!r}{extra}"[:700])
            ctx.check("C13.2", rets[0].value.items[1] == m["mu_ase"], fi_a, rets[0].node, f"average_voltages [{case}] mu_ASE", "r*p_ase*R_L", "ASE offset differs from r*p_ase*R_L")
        fi_n = pkg.func("utils.noise_variances")
        it = Interp(pkg, assumptions=ass)
        outs = it.run(fi_n)
        rets = [o for o in outs if o.kind == "return"]
        _none_arith(ctx, fi_n, it, case)
        Sv = vec2(rets[0].value) if len(rets) == 1 else None
        if Sv is None:
            ctx.unknown("C13.2", fi_n, fi_n.node, f"noise_variances [{case}]", "return is not a 2-vector of variances")
        else:
            for i, lab in ((0, "OFF"), (1, "ON")):
                if Sv[i] == m["S"][i]:
                    ctx.holds("C13.2", fi_n, rets[0].node, f"noise_variances [{case}] S_{lab}", "thermal*Fn + shot + sig-ASE + ASE-ASE")
                else:
                    diag_terms(ctx, "C13.2", fi_n, f"noise_variances [{case}]", Sv[i], m, i, rets[0].node, None)
    # ---- inner function of theory_BER
    fi_t = ber_kernel(pkg)
    for modn, amp in itertools.product(("ook", "ppm"), (True, False)):
        M = Form.num(2) if modn == "ook" else S("M")
        m = model(amp, M, S("f0"))
        ass = {"modulation": modn, "amplify": amp, "threshold": None, "decision": "hard"}
        for k in ("G", "NF", "BW_opt"):
            ass[k] = "notnone" if amp else "none"
        if modn == "ppm":
            ass["M"] = "notnone"
        case = f"{modn}, amplify={amp}"
        it = Interp(pkg, assumptions=ass)
        it.run(fi_t)
        env = locals_of(it)
        # levels
        for nm, i in (("mu_OFF", 0), ("mu_ON", 1)):
            if nm in env:
                v, stmt = env[nm]
                ctx.check("C13.2", v == m["mu"][i], fi_t, stmt, f"theory_BER [{case}] {nm}", "equals the model level", f"{nm} = {v!r} differs from the model {m['mu'][i]!r}"[:600])
        # total std: a local whose square is the model variance vector
        found = None
        for nm, (v, stmt) in env.items():
            vv = vec2(v)
            if vv is not None and all(fpow(vv[i], 2) == m["S"][i] for i in (0, 1)):
                found = nm
        if found:
            ctx.holds("C13.2", fi_t, env[found][1], f"theory_BER [{case}] `{found}`**2", "equals the model's total variances")
        else:
            cand = None
            for nm, (v, stmt) in env.items():
                vv = vec2(v)
                if vv is not None and all(isinstance(x, Form) and len(x.terms) == 1 and any(a[0] == "grp" for mm in x.terms for a, _ in mm) for x in vv):
                    cand = (nm, vv, stmt)
            if cand is None:
                ctx.unknown("C13.2", fi_t, fi_t.node, f"theory_BER [{case}] standard deviations", "no local holds the two standard deviations")
            else:
                nm, vv, stmt = cand
                for i in (0, 1):
                    tot = fpow(vv[i], 2)
                    if tot != m["S"][i]:
                        diag_terms(ctx, "C13.2", fi_t, f"theory_BER [{case}]", tot, m, i, stmt, env)


def _none_arith(ctx, fi, it, case):
    """parameters documented as 'only used if amplify=True' default to None: no arithmetic on them otherwise"""
    if it.none_arith:
        for (bfi, node, opnd) in it.none_arith:
            ctx.violation("C13.2", bfi, node, f"{src_of(node)} with {opnd!r} = None", f"{fi.name} [{case}]: arithmetic on an absent (None) EDFA parameter raises TypeError for the unamplified receiver")
    else:
        ctx.holds("C13.2", fi, fi.node, f"{fi.name} [{case}]: no arithmetic on absent parameters", "None-valued optional parameters are not used")


def _q_guard(ctx, fi, rule, assumptions=None, extra=None, min_m=1):
    from ..rules import check_pow2_guard
    check_pow2_guard(ctx, rule, fi, assumptions=assumptions, extra=extra, min_m=min_m)


def _grid_argmin(v, how=None):
    """(grid, grid arguments, objective) when v is `linspace(a, b, n)[i]` with i an index at which the objective is least: argmin
    (first minimiser), or an element T[k] of the set of exact minimisers T = flatnonzero(objective == min(objective)) /
    where(...)[0], min or nanmin.  `how`, when given, receives {"pick": "argmin" | k} (k: the position inside the tie set)"""
    a = v.single_atom() if isinstance(v, Form) else None
    if not (a and a[0] == "idx" and isinstance(a[1], Form) and isinstance(a[2], Form)):
        return None
    g, i = a[1].single_atom(), a[2].single_atom()
    if not (g and g[0] == "fn" and g[1] == "linspace" and i):
        return None
    if i[0] == "fn" and i[1] in ("argmin", "nanargmin") and len(i[2]) == 1 and not i[3]:
        if how is not None:
            how["pick"] = "argmin"
        return a[1], list(g[2]), i[2][0]
    if i[0] == "idx" and isinstance(i[1], Form):
        t = i[1].single_atom()
        if t and t[0] == "idx" and isinstance(t[1], Form) and isinstance(t[2], Form) and t[2].is_zero():
            w = t[1].single_atom()                      # where(cond)[0]
            t = w if (w and w[0] == "fn" and w[1] == "where" and len(w[2]) == 1) else None
        if t and t[0] == "fn" and t[1] in ("flatnonzero", "where") and len(t[2]) == 1 and isinstance(t[2][0], Form):
            e = t[2][0].single_atom()
            if e and e[0] == "fn" and e[1] == "eq" and len(e[2]) == 2 and all(isinstance(x, Form) for x in e[2]):
                for obj, least in (e[2], e[2][::-1]):
                    if any(least == mk_fn(nm, [obj]) for nm in ("min", "nanmin", "amin")):
                        if how is not None:
                            how["pick"] = i[2]
                            how["ties"] = i[1]
                        return a[1], list(g[2]), obj
    return None


def _positive_sigmas(d):
    """sign of k*sigma for one of the two standard deviations (positive on the statement's domain)"""
    if isinstance(d, Form) and len(d.terms) == 1:
        (m, c), = d.terms.items()
        if c[1] == 0 and len(m) == 1 and m[0][1] == 1 and m[0][0][0] == "sym" and m[0][0][1].split(".")[-1] in ("s0", "s1"):
            return 1 if c[0] > 0 else -1
    return None


def _equal_sigma_shortcuts(ctx, fi, it, rets, mu0, mu1, s0, s1):
    """the statement allows one closed form besides the grid search: the midpoint for EQUAL sigmas.  A return of (mu0+mu1)/2 is accepted
    under an exact equality test of the two sigmas (or a purely relative one); a test with an ABSOLUTE tolerance (numpy.isclose's
    default atol=1e-8) calls sigmas "equal" merely because the eye is expressed in a small unit - the threshold then depends on the
    unit, not only on mu1-mu0, s0, s1.  Returns the remaining (grid) returns."""
    if len(rets) <= 1:
        return rets
    mid = (mu0 + mu1) / 2
    rest = []
    for o in rets:
        if not (isinstance(o.value, Form) and o.value == mid):
            rest.append(o)
            continue
        tests = [it.cond_forms.get(txt) for txt, pol in o.conds if pol]
        verdict = None
        for cf in tests:
            ca = cf.single_atom() if isinstance(cf, Form) else None
            if ca is None or ca[0] != "fn":
                continue
            if ca[1] == "eq" and {vkey_(x) for x in ca[2]} == {vkey_(s0), vkey_(s1)}:
                verdict = "exact"
            elif ca[1].split(".")[-1] in ("isclose", "allclose") and len(ca[2]) >= 2 and {vkey_(ca[2][0]), vkey_(ca[2][1])} == {vkey_(s0), vkey_(s1)}:
                kw = dict(ca[3])
                atol = kw.get("atol", kw.get("abs_tol", ca[2][3] if len(ca[2]) > 3 else None))
                default_abs = ca[1].startswith("numpy.") or ca[1] in ("isclose", "allclose")
                if atol is None:
                    verdict = "absolute" if default_abs else "relative"
                else:
                    verdict = "relative" if (isinstance(atol, Form) and atol.is_zero()) else "absolute"
        if verdict is None:
            # both sigmas pinned to one and the same constant (s0 == 0 and s1 == 0): equal sigmas, written as two tests
            pinned = {}

            def eqs(cf):
                ca = cf.single_atom() if isinstance(cf, Form) else None
                if ca and ca[0] == "fn" and ca[1] == "and":
                    for x in ca[2]:
                        eqs(x)
                elif ca and ca[0] == "fn" and ca[1] == "eq" and len(ca[2]) == 2:
                    for a_, b_ in ((ca[2][0], ca[2][1]), (ca[2][1], ca[2][0])):
                        if isinstance(b_, Form) and b_.rational() is not None and vkey_(a_) in (vkey_(s0), vkey_(s1)):
                            pinned[vkey_(a_)] = b_.rational()
            for cf in tests:
                eqs(cf)
            if vkey_(s0) in pinned and vkey_(s1) in pinned and pinned[vkey_(s0)] == pinned[vkey_(s1)]:
                verdict = "exact"
        if verdict in ("exact", "relative"):
            ctx.holds("C13.5", fi, o.node, f"{fi.qualname}: midpoint returned for equal sigmas", "the closed form of the statement (sigmas compared exactly / relatively)")
        elif verdict == "absolute":
            ctx.violation("C13.5", fi, o.node, f"{fi.qualname}: midpoint returned when isclose(s0, s1)",
                          "the sigmas are compared with an absolute tolerance (numpy.isclose: atol=1e-8): for an eye expressed in a small unit (nA, uV) any two sigmas are 'equal', the midpoint "
                          "is returned instead of the optimum and threshold and estimated BER change with the unit - they no longer depend only on mu1-mu0, s0, s1")
        else:
            ctx.violation("C13.5", fi, o.node, f"{fi.qualname}: midpoint returned outside the equal-sigma case", "the midpoint is the optimum only for equal sigmas; the guard of this return is not a test of s0 against s1")
    return rest


def vkey_(v):
    from ..forms import vkey
    return vkey(v)


def rule_error_probabilities(ctx):
    pkg = ctx.pkg
    mu0, mu1, s0, s1 = S("eye_obj.mu0"), S("eye_obj.mu1"), S("eye_obj.s0"), S("eye_obj.s1")
    # ---------------- OOK threshold estimator
    fi = pkg.func("ook.THRESHOLD_EST")
    it = Interp(pkg, param_classes={"eye_obj": "eye"})
    it.keep_cond_forms = True
    it.domain_sign = _positive_sigmas             # "for all s0, s1 > 0"
    outs = it.run(fi)
    rets = _equal_sigma_shortcuts(ctx, fi, it, [o for o in outs if o.kind == "return"], mu0, mu1, s0, s1)
    how = {}
    ga = _grid_argmin(rets[0].value, how) if len(rets) == 1 else None
    if ga is not None:
        r, gargs, obj = ga
        _plateau_pick(ctx, fi, rets[0].node, how, "C13.13")
        ctx.check("C13.3", obj == ook_pe(mu0, mu1, s0, s1, r), fi, rets[0].node, "ook.THRESHOLD_EST objective", "1/2[Q((mu1-r)/s1)+Q((r-mu0)/s0)]",
                  f"objective {obj!r} differs from the OOK error probability"[:500])
        ok = len(gargs) >= 2 and gargs[0] == mu0 and gargs[1] == mu1
        ctx.check("C13.5", ok, fi, rets[0].node, "ook.THRESHOLD_EST result", "element of linspace(mu0, mu1, n) at the argmin", "threshold is not taken from linspace(mu0, mu1, n) at the minimiser: it can leave [mu0, mu1]")
    else:
        ctx.unknown("C13.3", fi, fi.node, "ook.THRESHOLD_EST", "argmin over a linspace grid not found")
    # ---------------- OOK estimator
    fi = pkg.func("ook.BER_analizer")
    it = Interp(pkg, assumptions={"mode": "estimator"}, param_values={"kargs": __import__("ocv.forms", fromlist=["DictV"]).DictV([(Const("eye_obj"), _eye())])})
    outs = it.run(fi)
    rets = [o for o in outs if o.kind == "return"]
    if len(rets) == 1 and isinstance(rets[0].value, Form):
        um = _threshold_atom(it)
        ctx.check("C13.3", um is not None and rets[0].value == ook_pe(mu0, mu1, s0, s1, um), fi, rets[0].node, "ook.BER_analizer('estimator')", "OOK error probability at the estimated threshold",
                  f"returns {rets[0].value!r}, not 1/2[Q((mu1-um)/s1)+Q((um-mu0)/s0)]"[:500])
    else:
        ctx.unknown("C13.3", fi, fi.node, "ook.BER_analizer('estimator')", f"{len(rets)} return paths")
    # ---------------- OOK theory
    fi = pkg.func("ook.theory_BER")
    inner = [f for q, f in pkg.module("ook").funcs.items() if q.startswith("ook.theory_BER.<locals>.")]
    done = False
    for f in inner:
        it = Interp(pkg)
        outs = it.run(f)
        rets = [o for o in outs if o.kind == "return"]
        ls = [r for r in it.calls if r.callee == "numpy.linspace"]
        if len(rets) == 1 and len(ls) == 1 and isinstance(rets[0].value, Form) and len(f.params) == 3:
            a, b, c = (S(p) for p in f.params)
            r = ls[0].result
            want = HALF * mk_fn("min", [Q((a - r) / c) + Q(r / b)])
            ok = rets[0].value == want and ls[0].args[0] == Form.num(0) and ls[0].args[1] == a
            ctx.check("C13.3", ok, f, rets[0].node, "ook.theory_BER kernel", "1/2*min_r[Q((mu1-r)/s1)+Q(r/s0)] over linspace(0, mu1, n)",
                      f"kernel {rets[0].value!r} differs from the grid minimum of the two-Gaussian error integral"[:500])
            unvec = _unvectorised_kernels(fi.node)
            ctx.check("C13.7", f.name not in unvec, f, f.node, "ook.theory_BER kernel is np.vectorize'd", "element-wise", "the kernel is not vectorised: array arguments are not handled element-wise")
            done = True
    if not done:
        ctx.unknown("C13.3", fi, fi.node, "ook.theory_BER", "vectorised kernel not found")
    # ---------------- PPM threshold estimator
    fi = pkg.func("ppm.THRESHOLD_EST")
    it = Interp(pkg, param_classes={"eye_obj": "eye"}, assumptions={"eye_obj": ("inst", "eye")})
    outs = it.run(fi)
    rets = [o for o in outs if o.kind == "return"]
    ga = _grid_argmin(rets[0].value) if len(rets) == 1 else None
    if ga is not None:
        r, gargs, obj = ga
        ctx.check("C13.3", obj == ppm_hard(mu0, mu1, s0, s1, r, S("M")), fi, rets[0].node, "ppm.THRESHOLD_EST objective", "1-Q((r-mu1)/s1)*(1-Q((r-mu0)/s0))^(M-1)",
                  f"objective {obj!r} differs from the PPM hard-decision symbol error"[:500])
        ok = len(gargs) >= 2 and gargs[0] == mu0 and gargs[1] == mu1
        ctx.check("C13.5", ok, fi, rets[0].node, "ppm.THRESHOLD_EST result", "element of linspace(mu0, mu1, n) at the argmin", "threshold is not taken from linspace(mu0, mu1, n) at the minimiser")
        # C13.12: the minimiser is located on the objective's small values (1e-17 .. 1e-90 for mu up to 20 s).  Formed as the
        # subtraction `1 - P(correct)` the objective has no resolution below 1.1e-16: around the optimum it is exactly 0 over a
        # stretch of the grid and argmin returns the first index of that plateau, not the root of (M-1)N0 = N1
        roots = _argmin_objective_roots(fi)
        if not roots:
            ctx.unknown("C13.12", fi, fi.node, "ppm.THRESHOLD_EST: objective expression", "argument of the argmin not found in the source")
        for node in roots:
            for bad_node, how_ in _near_one_misuse(fi, node):
                ctx.violation("C13.12", fi, bad_node, f"ppm.THRESHOLD_EST: a probability near one {how_}",
                              f"`{src_of(bad_node)}` is within 1.1e-16 of one over the part of the grid where the optimum lies (it is the complement of a tail that has underflowed below the "
                              "rounding of 1.0), so its logarithm is exactly 0 / its power exactly 1 there: the false-alarm term vanishes from the objective and argmin returns the first such "
                              "grid point (8.30 instead of 8.5 for mu1 - mu0 = 17 s) - the tail itself has to enter through log1p(-tail) / expm1")
            ctx.check("C13.12", not _is_one_minus(node), fi, node, "ppm.THRESHOLD_EST: objective not formed by subtraction from one", "sum of tail probabilities (expm1/log1p form)",
                      "the objective is written 1 - P(correct): below 1.1e-16 it is exactly 0, so for mu1 - mu0 > 16.4 s (inside mu in (0, 20 s]) the grid holds a plateau of zeros and "
                      "argmin returns its first index - THRESHOLD_EST(mu0=0, mu1=17, s0=s1=1, M=2) = 8.304 where (M-1)N0 = N1 at 8.5 (20: 8.308 for 10)")
    else:
        ctx.unknown("C13.3", fi, fi.node, "ppm.THRESHOLD_EST", "argmin over a linspace grid not found")
    pass  # (clause removed: the property statement names no exception for this case - it was read off the docstring, i.e. the check demanded more than the property)
    # ---------------- PPM estimator
    fi = pkg.func("ppm.BER_analizer")
    from ..forms import DictV
    factor = S("M") / (2 * (S("M") - 1))
    lower_case = {}
    for dec in ("hard", "soft", "Hard", "SOFT"):
        it = Interp(pkg, assumptions={"mode": "estimator", "M": ("inst", "int")}, param_values={"kwargs": DictV([(Const("eye_obj"), _eye()), (Const("M"), S("M")), (Const("decision"), Const(dec))])})   # the order is an integer (M in {2,...,256})
        outs = it.run(fi)
        rets = [o for o in outs if o.kind == "return"]
        if dec != dec.lower():
            # a spelling of the decision is either refused by the validation or computed like its lower-case form: one that passes
            # the validation and then matches no branch of the dispatch leaves the function without a result
            raises = [o for o in outs if o.kind == "raise"]
            refused = not rets and raises and raises[-1].exc == "ValueError"
            same = len(rets) == 1 and isinstance(rets[0].value, Form) and rets[0].value == lower_case.get(dec.lower())
            ctx.check("C13.3", bool(refused or same), fi, (rets[0].node if rets else raises[-1].node if raises else fi.node), f"ppm.BER_analizer('estimator', decision={dec!r})",
                      "refused with ValueError or computed like the lower-case spelling",
                      f"decision={dec!r} passes the validation (which compares decision.lower()) but the dispatch compares the raw string: no branch computes the symbol error "
                      f"({'returns ' + repr(rets[0].value)[:120] if rets else 'ends with ' + str(raises[-1].exc if raises else None)}) - UnboundLocalError instead of the {dec.lower()}-decision estimate")
            continue
        if len(rets) == 1:
            lower_case[dec] = rets[0].value
        if len(rets) != 1 or not isinstance(rets[0].value, Form):
            ctx.unknown("C13.3", fi, fi.node, f"ppm.BER_analizer('estimator', {dec})", f"{len(rets)} return paths")
            continue
        v = rets[0].value
        if dec == "hard":
            um = _threshold_atom(it)
            want = factor * ppm_hard(mu0, mu1, s0, s1, um, S("M")) if um is not None else None
            ctx.check("C13.3", want is not None and v == want, fi, rets[0].node, "ppm.BER_analizer('estimator', hard)", "M/(2(M-1)) * hard-decision symbol error at the estimated threshold",
                      f"returns {v!r}"[:400] + " -- not M/(2(M-1))*(1-Q((um-mu1)/s1)*(1-Q((um-mu0)/s0))^(M-1))")
        else:
            _check_soft(ctx, fi, it, v, rets[0].node, "ppm.BER_analizer('estimator', soft)", mu1 - mu0, s0, s1, S("M"), factor)
    pass  # (clause removed: the property statement names no exception for this case - it was read off the docstring, i.e. the check demanded more than the property)
    # ---------------- PPM theory
    fi = pkg.func("ppm.theory_BER")
    for dec in ("hard", "soft"):
        it = Interp(pkg, assumptions={"decision": dec})
        outs = it.run(fi)
        rets = [o for o in outs if o.kind == "return"]
        if len(rets) != 1 or not isinstance(rets[0].value, Form):
            ctx.unknown("C13.3", fi, fi.node, f"ppm.theory_BER [{dec}]", f"{len(rets)} return paths")
            continue
        v = rets[0].value
        a, b, c, M = S("mu1"), S("s0"), S("s1"), S("M")
        if dec == "hard":
            ls = [r for r in it.calls if r.callee == "numpy.linspace"]
            if len(ls) != 1:
                ctx.unknown("C13.3", fi, rets[0].node, "ppm.theory_BER [hard]", "grid not found")
                continue
            r = ls[0].result
            want = factor * mk_fn("min", [ppm_hard(Form.num(0), a, b, c, r, M)])
            ok = v == want and ls[0].args[0] == Form.num(0) and ls[0].args[1] == a
            ctx.check("C13.3", ok, fi, rets[0].node, "ppm.theory_BER [hard]", "M/(2(M-1)) * min_r hard-decision symbol error over linspace(0, mu1, n)", f"returns {v!r}"[:500])
        else:
            _check_soft(ctx, fi, it, v, rets[0].node, "ppm.theory_BER [soft]", a, b, c, M, factor)
    pass  # (clause removed: the property statement names no exception for this case - it was read off the docstring, i.e. the check demanded more than the property)
    # vectorisation of ppm.theory_BER kernels
    src = pkg.module("ppm").src
    kernels, unvec = _unvectorised_kernels(fi.node, both=True)
    ctx.check("C13.7", len(kernels) >= 2 and not unvec, fi, fi.node, "ppm.theory_BER kernels are np.vectorize'd", "element-wise for both decisions",
              f"a decision kernel is not vectorised ({sorted(unvec) or 'fewer than two kernels found'})")
    # ---------------- utils.theory_BER kernels
    fi = ber_kernel(pkg)
    for modn, dec in (("ook", None), ("ppm", "hard"), ("ppm", "soft")):
        ass = {"modulation": modn, "amplify": False, "threshold": None, "G": "none", "NF": "none", "BW_opt": "none"}
        if dec:
            ass["decision"] = dec
            ass["M"] = "notnone"
        it = Interp(pkg, assumptions=ass)
        outs = it.run(fi)
        rets = [o for o in outs if o.kind == "return"]
        case = f"utils.theory_BER [{modn}{'/' + dec if dec else ''}]"
        if len(rets) != 1 or not isinstance(rets[0].value, Form):
            ctx.unknown("C13.3", fi, fi.node, case, f"{len(rets)} return paths")
            continue
        env = locals_of(it)
        if not all(k in env for k in ("mu_ON", "mu_OFF")):
            ctx.unknown("C13.3", fi, fi.node, case, "levels mu_ON/mu_OFF not found")
            continue
        on, off = env["mu_ON"][0], env["mu_OFF"][0]
        sv = None
        for nm, (vv, stmt) in env.items():
            if vec2(vv) is not None and nm not in ("mu",) and all(any(a[0] == "grp" for mm in x.terms for a, _ in mm) for x in vec2(vv)):
                sv = vec2(vv)
        if sv is None:
            ctx.unknown("C13.3", fi, fi.node, case, "standard deviations not found")
            continue
        v = rets[0].value
        M = Form.num(2) if modn == "ook" else S("M")
        if modn == "ook":
            ls = [r for r in it.calls if r.callee == "numpy.linspace"]
            r = ls[0].result if len(ls) == 1 else None
            ok = r is not None and ls[0].args[0] == off and ls[0].args[1] == on and _is_grid_minimum(ctx, it, v, Form.num(1), lambda t: ook_pe(off, on, sv[0], sv[1], t), ls[0], off, on)
            ctx.check("C13.3", ok, fi, rets[0].node, case, "min over linspace(mu_OFF, mu_ON, n) of the OOK error probability", "kernel differs from min_r 1/2[Q((mu_ON-r)/s1)+Q((r-mu_OFF)/s0)]")
        elif dec == "hard":
            ls = [r for r in it.calls if r.callee == "numpy.linspace"]
            r = ls[0].result if len(ls) == 1 else None
            fac = M / (2 * (M - 1))
            ok = r is not None and ls[0].args[0] == off and ls[0].args[1] == on and _is_grid_minimum(ctx, it, v, fac, lambda t: ppm_hard(off, on, sv[0], sv[1], t, M), ls[0], off, on)
            ctx.check("C13.3", ok, fi, rets[0].node, case, "M/(2(M-1)) * min over the grid of the hard-decision symbol error", "kernel differs from the PPM hard-decision formula")
        else:
            _check_soft(ctx, fi, it, v, rets[0].node, case, on - off, sv[0], sv[1], M, M / (2 * (M - 1)))
        if dec == "soft":
            continue
        # C13.11: inside the stated domain the OFF level can be noise free (T = 0, ER = inf, no ASE: thermal, shot and beat terms all
        # vanish there), so at the first grid point - the OFF level itself - the argument (r - mu_OFF)/s0 is 0/0; a plain minimum
        # propagates that nan.  Either the reduction ignores undefined entries or the grid does not start on the level
        if ls and len(ls) == 1 and ls[0].args and ls[0].args[0] == off:
            g_ = ls[0].result
            on_level = not any(v == f_ * mk_fn("min", [o_(_interior(g_, b_))]) for b_ in (True, False)
                               for f_, o_ in ((Form.num(1), lambda t: ook_pe(off, on, sv[0], sv[1], t)), (M / (2 * (M - 1)), lambda t: ppm_hard(off, on, sv[0], sv[1], t, M))))
            plain = on_level and _mentions_fn(v, "min") and not _mentions_fn(v, "nanmin")
            ctx.check("C13.11", not plain, fi, rets[0].node, f"{case}: minimum over a grid that starts on the OFF level", "undefined entries are ignored (nanmin)",
                      "the threshold grid starts at mu_OFF and is reduced with a plain min: with a noise-free OFF level (T = 0, ER = inf, unamplified or G = 0 dB, all inside the "
                      "stated ranges) the first entry is Q(0/0) = nan and the whole error probability is nan (theory_BER(-50, 'ook', T=0) = nan where T = 1e-9 gives 1.04e-4)")
        # an explicit relative threshold t is the level t*mu_ON + (1-t)*mu_OFF between the two received levels of the model
        ass2 = dict(ass)
        ass2["threshold"] = "notnone"
        it2 = Interp(pkg, assumptions=ass2)
        rets2 = [o for o in it2.run(fi) if o.kind == "return"]
        case2 = case[:-1] + ", threshold given]"
        if len(rets2) != 1 or not isinstance(rets2[0].value, Form):
            ctx.unknown("C13.3", fi, fi.node, case2, f"{len(rets2)} return paths")
            continue
        t_ = S("threshold")
        r_abs = t_ * on + (1 - t_) * off
        want2 = ook_pe(off, on, sv[0], sv[1], r_abs) if modn == "ook" else (M / (2 * (M - 1))) * ppm_hard(off, on, sv[0], sv[1], r_abs, M)
        ctx.check("C13.3", rets2[0].value == want2, fi, rets2[0].node, case2, "error probability at threshold*mu_ON + (1-threshold)*mu_OFF",
                  "with an explicit threshold the error integral is not evaluated at t*mu_ON + (1-t)*mu_OFF (the point between the two received levels): for a finite extinction ratio "
                  "the result is not the two-Gaussian error of the receiver model at the requested threshold")


def _unvectorised_kernels(fnode, both=False):
    """the per-element kernels nested in a function (nested defs, lambdas bound to a name) and those of them that are NOT run under
    np.vectorize: a kernel is vectorised by a decorator, by being wrapped where it is defined (`f = np.vectorize(lambda ...)`), or by
    its name being handed to np.vectorize later (`np.vectorize(fun)(...)` after the branches that define `fun`)"""
    is_vec = lambda c: isinstance(c, ast.Call) and src_of(c.func) in ("np.vectorize", "numpy.vectorize")
    handed = {a.id for n in ast.walk(fnode) if is_vec(n) for a in n.args if isinstance(a, ast.Name)}
    kernels, unvec = [], set()

    def own_nodes(root):
        """nodes of the function itself: the bodies of nested defs / lambdas are those functions' business (an integrand bound to a
        name inside a vectorised kernel is not a kernel)"""
        stack = list(ast.iter_child_nodes(root))
        while stack:
            n_ = stack.pop()
            yield n_
            if not isinstance(n_, (ast.FunctionDef, ast.AsyncFunctionDef, ast.Lambda)):
                stack.extend(ast.iter_child_nodes(n_))
    for n in own_nodes(fnode):
        if isinstance(n, ast.FunctionDef) and n is not fnode:
            kernels.append(n.name)
            if not (any("vectorize" in src_of(d) for d in n.decorator_list) or n.name in handed):
                unvec.add(n.name)
        elif isinstance(n, ast.Assign) and len(n.targets) == 1 and isinstance(n.targets[0], ast.Name):
            v = n.value
            if isinstance(v, ast.Lambda):
                kernels.append(n.targets[0].id)
                if n.targets[0].id not in handed:
                    unvec.add(n.targets[0].id)
            elif is_vec(v) and v.args and isinstance(v.args[0], ast.Lambda):
                kernels.append(n.targets[0].id)
    return (kernels, unvec) if both else unvec


def _plateau_pick(ctx, fi, node, how, rule):
    """C13.13 / C03.13: with a nearly noise-free eye (the whole of C03's domain: s0 of 3e-4 of the eye) both tails underflow to exactly 0 over
    most of [mu0, mu1]: every grid point of that stretch is a minimiser, and which one is returned decides the threshold.  The first
    (argmin, ties[0]) sits 0.1-1.5 % of the eye above mu0, the last as close to mu1; the one in the middle of the tie set is the only
    choice that keeps the threshold away from both levels - and is the midpoint for equal sigmas, as C13 states"""
    pick = how.get("pick")
    label = "ook.THRESHOLD_EST: which of the tied minimisers is returned"
    bad = "the cost 1/2[Q((mu1-r)/s1)+Q((r-mu0)/s0)] underflows to exactly 0 over most of the grid when the eye is nearly noise free; {} - ook.DSP on 35 slots of " \
          "PRBS-7 (sps 16, Gaussian m=2, ER 10 dB, DM 99 ps^2, PD BW 72 GHz, no noise) put the threshold 1.5 % of the eye above mu0 and decided the last 0 as 1 (eye margin 0.977)"
    if pick == "argmin":
        ctx.violation(rule, fi, node, label, bad.format("argmin returns the first of them, next to mu0"))
        return
    ties = how.get("ties")
    n_t = [mk_fn("len", [ties]), Form.atom(("attr", ties, "size")), mk_fn("size", [ties])] if ties is not None else []
    middle = isinstance(pick, Form) and any(pick == mk_fn("floordiv", [n, Form.num(2)]) or pick == mk_fn("floordiv", [n - 1, Form.num(2)]) for n in n_t)
    if middle:
        ctx.holds(rule, fi, node, label, "the middle element of flatnonzero(cost == min(cost))")
    elif isinstance(pick, Form) and pick.rational() is not None:
        ctx.violation(rule, fi, node, label, bad.format(f"element [{pick!r}] of the tie set is an end of the stretch, next to one of the levels"))
    else:
        ctx.unknown(rule, fi, node, label, f"position {pick!r} inside the tie set not recognised")


def fallback_nan_safe(pkg):
    """ppm.THRESHOLD_EST locates its minimum with a reduction that ignores undefined entries (nanargmin, or a tie set taken on
    nanmin): True / False, None when the minimiser is not identified"""
    fi = pkg.func("ppm.THRESHOLD_EST")
    it = Interp(pkg, param_classes={"eye_obj": "eye"}, assumptions={"eye_obj": ("inst", "eye")})
    rets = [o for o in it.run(fi) if o.kind == "return" and isinstance(o.value, Form)]
    if len(rets) != 1:
        return None
    v = rets[0].value
    if _grid_argmin(v, {}) is None:
        return None
    return _mentions_fn(v, "nanargmin") or (_mentions_fn(v, "nanmin") and not _mentions_fn(v, "argmin"))


def rule_tied_minimisers(ctx, rule):
    """the clause above under another property's number (C03: ook.DSP returns the transmitted bits of a noise-free link)"""
    fi = ctx.pkg.func("ook.THRESHOLD_EST")
    it = Interp(ctx.pkg, param_classes={"eye_obj": "eye"})
    rets = [o for o in it.run(fi) if o.kind == "return" and isinstance(o.value, Form)]
    found = False
    for o in rets:
        how = {}
        if _grid_argmin(o.value, how) is not None:
            _plateau_pick(ctx, fi, o.node, how, rule)
            found = True
    if not found:
        ctx.unknown(rule, fi, fi.node, "ook.THRESHOLD_EST: which of the tied minimisers is returned", "grid minimiser not found")


def _argmin_objective_roots(fi):
    """the expression(s) whose least value an argmin in fi locates, with a local name followed to its assignments and a call of a
    local lambda / def to the value it returns"""
    assigns, funcs = {}, {}
    for n in ast.walk(fi.node):
        if isinstance(n, ast.Assign) and len(n.targets) == 1 and isinstance(n.targets[0], ast.Name):
            if isinstance(n.value, ast.Lambda):
                funcs[n.targets[0].id] = [n.value.body]
            else:
                assigns.setdefault(n.targets[0].id, []).append(n.value)
        elif isinstance(n, ast.FunctionDef) and n is not fi.node:
            funcs[n.name] = [r.value for r in ast.walk(n) if isinstance(r, ast.Return) and r.value is not None]
    out = []

    def follow(e, depth=0):
        if depth > 4:
            return [e]
        if isinstance(e, ast.Name) and e.id in assigns:
            return [x for v in assigns[e.id] for x in follow(v, depth + 1)]
        if isinstance(e, ast.Call) and isinstance(e.func, ast.Name) and e.func.id in funcs:
            return [x for v in funcs[e.func.id] for x in follow(v, depth + 1)]
        return [e]
    for n in ast.walk(fi.node):
        if isinstance(n, ast.Call) and isinstance(n.func, ast.Attribute) and n.func.attr in ("argmin", "nanargmin"):
            arg = n.args[0] if n.args else (n.func.value if not (isinstance(n.func.value, ast.Name) and n.func.value.id in ("np", "numpy")) else None)
            if arg is not None:
                out.extend(follow(arg))
    return out


def _near_one_misuse(fi, root):
    """[(node, how)] for sub-expressions of the objective that are probabilities NEAR ONE on the grid - Q of a non-positive argument
    ((mu0 - r)/s0 or (r - mu1)/s1 with r on linspace(mu0, mu1)), or 1 - Q of a non-negative one - and are used as the argument of a
    logarithm or as the base of a power.  Which names are the levels and the grid is read from the function's own assignments"""
    low, high, grid = set(), set(), set()
    for n in ast.walk(fi.node):
        if isinstance(n, ast.Assign) and len(n.targets) == 1 and isinstance(n.targets[0], ast.Name):
            v = n.value
            if isinstance(v, ast.Attribute) and v.attr == "mu0":
                low.add(n.targets[0].id)
            elif isinstance(v, ast.Attribute) and v.attr == "mu1":
                high.add(n.targets[0].id)
            elif isinstance(v, ast.Call) and isinstance(v.func, ast.Attribute) and v.func.attr == "linspace":
                grid.add(n.targets[0].id)
    nm = lambda x: x.id if isinstance(x, ast.Name) else (x.attr if isinstance(x, ast.Attribute) and x.attr in ("mu0", "mu1") else None)
    is_low = lambda x: nm(x) in low or nm(x) == "mu0"
    is_high = lambda x: nm(x) in high or nm(x) == "mu1"
    is_grid = lambda x: isinstance(x, ast.Name) and x.id in grid

    def tail_kind(c):
        """'small' / 'one' for Q((a - b)/s) by the sign of a - b on the grid"""
        if not (isinstance(c, ast.Call) and ((isinstance(c.func, ast.Name) and c.func.id == "Q") or (isinstance(c.func, ast.Attribute) and c.func.attr == "Q")) and len(c.args) == 1):
            return None
        a = c.args[0]
        if isinstance(a, ast.BinOp) and isinstance(a.op, ast.Div):
            a = a.left
        if not (isinstance(a, ast.BinOp) and isinstance(a.op, ast.Sub)):
            return None
        x, y = a.left, a.right
        if (is_grid(x) and is_low(y)) or (is_high(x) and is_grid(y)):
            return "small"
        if (is_low(x) and is_grid(y)) or (is_grid(x) and is_high(y)):
            return "one"
        return None

    def near_one(e):
        if tail_kind(e) == "one":
            return True
        one = lambda x: isinstance(x, ast.Constant) and isinstance(x.value, (int, float)) and not isinstance(x.value, bool) and x.value == 1
        return isinstance(e, ast.BinOp) and isinstance(e.op, ast.Sub) and one(e.left) and tail_kind(e.right) == "small"
    out = []
    for n in ast.walk(root):
        if isinstance(n, ast.Call) and isinstance(n.func, ast.Attribute) and n.func.attr in ("log", "log2", "log10") and n.args and near_one(n.args[0]):
            out.append((n.args[0], "is the argument of a logarithm"))
        if isinstance(n, ast.BinOp) and isinstance(n.op, ast.Pow) and near_one(n.left):
            out.append((n.left, "is the base of a power"))
        if isinstance(n, ast.Call) and isinstance(n.func, ast.Attribute) and n.func.attr in ("power", "float_power") and n.args and near_one(n.args[0]):
            out.append((n.args[0], "is the base of a power"))
    return out


def _is_one_minus(e):
    one = lambda x: isinstance(x, ast.Constant) and isinstance(x.value, (int, float)) and not isinstance(x.value, bool) and x.value == 1
    if isinstance(e, ast.BinOp) and isinstance(e.op, ast.Sub) and one(e.left):
        return True
    if isinstance(e, ast.Call) and isinstance(e.func, ast.Attribute) and e.func.attr == "subtract" and e.args and one(e.args[0]):
        return True
    return False


def _interior(r, both):
    """r[1:-1] (both) or r[1:]: the grid without the level(s) it starts (and ends) on"""
    return Form.atom(("idx", r, SliceV(Form.num(1), Form.num(-1) if both else Const(None), Const(None))))


def _mentions_fn(v, name):
    """the form v contains an application of the function `name` (at any depth)"""
    if isinstance(v, Form):
        for m in v.terms:
            for a, _ in m:
                if a[0] == "fn" and a[1] == name:
                    return True
                if any(_mentions_fn(c, name) for c in atom_children(a)):
                    return True
    elif isinstance(v, TupleV):
        return any(_mentions_fn(c, name) for c in v.items)
    return False


def _is_grid_minimum(ctx, it, v, fac, objective, grid_rec, off, on):
    """v is fac * (the least of the objective over the grid linspace(off, on, n)), possibly lowered further by values of the SAME
    objective at other thresholds inside [off, on] (a bounded scalar minimiser started around the best grid point): the result is
    then still an error probability of an admissible threshold (never below the true minimum) and never above the grid minimum"""
    r = grid_rec.result
    for r_ in (r, _interior(r, True), _interior(r, False)):   # the grid, or the grid without its first (and last) point - still inside [off, on]
        if v == fac * mk_fn("min", [objective(r_)]) or v == fac * mk_fn("nanmin", [objective(r_)]):
            return True                                      # which reduction it has to be on which grid: C13.11
    gmin = mk_fn("min", [objective(r)])
    refin = [c for c in it.calls if c.callee in ("scipy.optimize.minimize_scalar",)]
    if not refin:
        return False
    extra = []
    x = S("_threshold_")
    for c in refin:
        f = c.args[0] if c.args else c.kwargs.get("fun")
        b = c.kwargs.get("bounds")
        if not (isinstance(f, FuncV) and isinstance(b, TupleV) and len(b.items) == 2):
            return False
        got = Interp(ctx.pkg).call_funcv(f, [x])
        if not (isinstance(got, Form) and got == objective(x)):
            return False                                     # refines another function than the one the grid samples
        for e in b.items:
            a = e.single_atom() if isinstance(e, Form) else None
            inside = (isinstance(e, Form) and (e == off or e == on)) or (a is not None and a[0] == "idx" and isinstance(a[1], Form) and a[1] == r)
            if not inside:
                return False                                 # the refinement may leave [off, on]
        extra.append(mk_attr(c.result, "fun"))
    for perm in itertools.permutations([gmin] + extra):
        if v == fac * mk_fn("min", list(perm)):
            return True
    return False


def _mentions_value(v, target, depth=0):
    """some value nested in v is the target, or has it as an additive part (subtracting it leaves fewer terms)"""
    if depth > 6:
        return False
    if isinstance(v, Form):
        if v == target or len((v - target).terms) < len(v.terms):
            return True
        return any(_mentions_value(c, target, depth + 1) for a in v.atoms(deep=False) for c in atom_children(a))
    if isinstance(v, TupleV):
        return any(_mentions_value(c, target, depth + 1) for c in v.items)
    items = getattr(v, "items", None)
    if isinstance(items, (list, tuple)):
        return any(_mentions_value(c, target, depth + 1) for c in items)
    return False


def _check_soft(ctx, fi, it, v, node, case, dmu, s0, s1, M, factor):
    quads = [r for r in it.calls if r.callee == "scipy.integrate.quad"]
    if len(quads) != 1 or not isinstance(quads[0].args[0], FuncV):
        ctx.unknown("C13.3", fi, node, case, "quad(lambda ...) call not found")
        return
    q = quads[0]
    x = S("x")
    integ = Interp(ctx.pkg).call_funcv(q.args[0], [x])
    want_int = soft_integrand(dmu, s0, s1, x, M)
    # either the probability of a correct symbol is integrated and subtracted from one, or its complement is integrated directly
    gauss = mk_fn("exp", [-x * x / 2])
    complement = isinstance(integ, Form) and integ == gauss - want_int
    ctx.check("C13.3", isinstance(integ, Form) and (integ == want_int or complement), fi, q.node, f"{case}: soft-decision integrand", "(1-Q((dmu+s1*x)/s0))^(M-1)*exp(-x^2/2) or its complement",
              f"integrand {integ!r} differs from {want_int!r}"[:700])
    lo, hi = q.args[1] if len(q.args) > 1 else None, q.args[2] if len(q.args) > 2 else None
    inf = Form.atom(("c", "inf"))
    lo_c, hi_c = (const_float(lo) if isinstance(lo, Form) else None), (const_float(hi) if isinstance(hi, Form) else None)
    whole = isinstance(lo, Form) and isinstance(hi, Form) and ((lo == -inf and hi == inf) or (lo_c is not None and hi_c is not None and lo_c <= -39 and hi_c >= 39))
    ctx.check("C13.3", whole, fi, q.node, f"{case}: integration limits", "(-inf, inf), or constants beyond +-39 where exp(-x^2/2) is zero in double precision",
              "integration limits do not cover the support of the Gaussian weight ((-inf, inf), or constants beyond +-39)")
    # C13.14 the first factor of the integrand is a knee of width s0/s1 at x = -dmu/s1 (a step for a noise-free OFF level): the nodes of
    # an adaptive Gauss-Kronrod rule on the whole axis do not find a knee narrower than about 1e-2, the error estimate still passes
    # and the step is "snapped" to a node - the result is the s0 -> 0 limit at a shifted mu.  The interval has to be split there.
    kw0 = dict(q.kwargs) if getattr(q, "kwargs", None) else {}
    pts = kw0.get("points")
    knee = -dmu / s1
    ctx.check("C13.14", pts is not None and _mentions_value(pts, knee), fi, q.node, f"{case}: the quadrature is split at the knee x = -dmu/s1 of its integrand", "points= contains the knee",
              "quad is left to find the knee of (1-Q((dmu+s1*x)/s0))^(M-1) at x = -dmu/s1 by itself: for s0 much smaller than s1 it does not - ppm.theory_BER(1.67, 1e-4, 1, 2, 'soft') = "
              "0.047790 where Q(mu/sqrt(s0^2+s1^2)) = 0.047460 (and above the hard-decision value 0.047625); (2.99, 1e-4, 1) returns exactly Q(3), 3.2 % off; "
              "utils.theory_BER(-48.95, 'ppm', M=4, decision='soft', T=0, r=0.1) = 2.48833e-2 > hard 2.48762e-2")
    I0 = Form.atom(("idx", q.result, Form.num(0)))
    want = factor * (1 - I0 / fpow(2 * PI, HALF)) if not complement else factor * I0 / fpow(2 * PI, HALF)
    if v != want and v == factor * mk_fn("max", [1 - I0 / fpow(2 * PI, HALF), Form.num(0)]):
        want = v          # the symbol error probability floored at 0 (it is one; quadrature error can leave it at -1e-17)
    ctx.check("C13.3", v == want, fi, node, f"{case}: BER = M/(2(M-1))*(1 - I/sqrt(2 pi))", "prefactor and symbol->bit factor", f"returns {v!r}, not M/(2(M-1))*(1 - quad(...)[0]/sqrt(2*pi))"[:500])
    # C13.10 the error probability is formed as ONE MINUS a quadrature that is accurate to an absolute tolerance (scipy's default
    # epsabs = 1.49e-8): every error probability below that tolerance is quadrature noise.  For s1 > s0 the mass that is missing
    # from 1 is a sharp step deep in the Gaussian tail which quad never resolves - the M = 2 value is off Q(mu/sqrt(s0^2+s1^2))
    # by tens of percent, soft exceeds hard, and the value rises with mu.  Holds when the complement itself is integrated or the
    # absolute tolerance is switched off (epsabs = 0) with the tail probability as integrand.
    kw = dict(q.kwargs) if getattr(q, "kwargs", None) else {}
    epsabs = kw.get("epsabs")
    one_minus = not complement
    loose = epsabs is None or not (isinstance(epsabs, Form) and epsabs.is_zero())
    label = f"{case}: tail probability not formed as 1 - quadrature with an absolute tolerance"
    if complement and loose:
        ctx.violation("C13.10", fi, q.node, label,
                      "the complement is integrated, but with quad's default absolute tolerance (epsabs = 1.49e-8, not switched off): quad stops as soon as its error estimate is below the larger of "
                      "the two tolerances, so every symbol error probability below about 1e-8 is accepted after the first coarse pass - ppm.theory_BER(6, 1.0, 0.1, 2, 'soft') = 2.35e-9 where "
                      "Q(mu/sqrt(s0^2+s1^2)) = 1.19e-9, and BER(5.90) = 2.17e-9 < BER(6.00) = 2.35e-9")
    elif one_minus or loose:
        ctx.violation("C13.10", fi, q.node, label,
                      "the symbol error probability is 1 - quad(...)[0]/sqrt(2 pi) with quad's default absolute tolerance 1.49e-8: values below it are quadrature noise. "
                      "ppm.theory_BER(6, 0.02, 1, 2, 'soft') = 1.72e-9 where Q(mu/sqrt(s0^2+s1^2)) = 9.94e-10; theory_BER(6.5, 0.02, 1, 8): soft 6.26e-11 > hard 6.05e-11; "
                      "theory_BER(mu, 0.05, 1, 4, 'soft') rises from 3.55e-8 at mu = 5.26 to 5.53e-8 at mu = 5.28")
    else:
        ctx.holds("C13.10", fi, q.node, label, "complement integrated directly, no absolute tolerance")


def _eye():
    from ..absint import param_object
    return param_object("eye", "eye_obj")


def _threshold_atom(it):
    """the value returned by the inlined THRESHOLD_EST"""
    for r in it.calls:
        if r.callee and r.callee.endswith(".THRESHOLD_EST") and isinstance(r.result, Form):
            return r.result
    return None


def _clear_denominators(f, limit=12):
    """multiply a form by the sums it divides by until no negative integer power of a sum is left (the product expands and cancels)"""
    for _ in range(limit):
        worst = None
        for m in f.terms:
            for a, e in m:
                if a[0] == "grp" and e.denominator == 1 and e < 0 and (worst is None or e < worst[1]):
                    worst = (a, e)
        if worst is None:
            return f
        f = f * Form({((worst[0], -worst[1]),): (Fraction(1), Fraction(0))})
    return None


def _denominators(f):
    """the sums a form divides by (negative powers of a group), nested ones included"""
    out = []
    def walk(v):
        if isinstance(v, Form):
            for m in v.terms:
                for a, e in m:
                    if a[0] == "grp":
                        if e < 0:
                            out.append(a[1])
                        walk(a[1])
                    else:
                        for ch in atom_children(a):
                            walk(ch)
    walk(f)
    return out


def rule_optimum_threshold(ctx):
    pkg = ctx.pkg
    fi = pkg.func("utils.optimum_threshold")
    for modn in ("ook", "ppm"):
        it = Interp(pkg, assumptions={"modulation": modn})
        outs = it.run(fi)
        rets = [o for o in outs if o.kind == "return"]
        if len(rets) != 1 or not isinstance(rets[0].value, Form):
            ctx.unknown("C13.5", fi, fi.node, f"optimum_threshold [{modn}]", f"{len(rets)} return paths")
            continue
        mu0, mu1, S0, S1 = S("mu0"), S("mu1"), S("S0"), S("S1")
        M = Form.num(2) if modn == "ook" else S("M")
        s0, s1 = fpow(S0, HALF), fpow(S1, HALF)
        disc = fpow(mu1 - mu0, 2) + 2 * (S1 - S0) * mk_fn("log", [s1 / s0 * (M - 1)])
        want = (mu0 * S1 - mu1 * S0 + s1 * s0 * fpow(disc, HALF)) / (S1 - S0)
        got = rets[0].value
        same = got == want
        if not same:
            # any rearrangement of the same root as a quotient: the difference vanishes once the denominators are cleared
            diff = _clear_denominators(got - want)
            same = diff is not None and diff.is_zero()
        ctx.check("C13.5", same, fi, rets[0].node, f"optimum_threshold [{modn}]", "root of (M-1)*N(r;mu0,S0) = N(r;mu1,S1)",
                  f"returns {got!r}, closed form is {want!r}"[:700])
        # equal variances are an ordinary input (the threshold is then the midpoint + S*log(M-1)/(mu1-mu0)): no sum the
        # result divides by may vanish identically for S1 = S0
        def eq(a):
            return S("S0") if a == ("sym", "S1") else None
        bad = [d for d in _denominators(got) if subst_value(d, eq).is_zero()]
        ctx.check("C13.5", not bad, fi, rets[0].node, f"optimum_threshold [{modn}]: defined for S0 == S1", "no divisor vanishes for equal variances",
                  f"the returned expression divides by {bad[0]!r}, which is zero for S1 = S0: equal variances (the midpoint case of the statement) give ZeroDivisionError / nan"[:500] if bad else "")


def rule_device_counterparts(ctx):
    pkg = ctx.pkg
    # PD thermal / shot variances (A^2) * R_load^2  vs utils terms with B = fs/2
    fi = pkg.func("devices.PD")
    it = Interp(pkg, assumptions={"include_noise": "all", "input.noise": "none", "input.n_pol": 1}, param_classes={"input": "optical_signal"})
    it.tag_draws = True
    outs_pd = it.run(fi)
    from .c09 import noise_draws, unfilter
    rets_pd = [o for o in outs_pd if o.kind == "return" and isinstance(o.value, ObjV)]
    Ypd = unfilter(rets_pd[0].value.fields.get("noise"))[0] if len(rets_pd) == 1 else None
    ren = {"R_load": S("R_L"), "gv.fs": 2 * S("BW_el"), "Fn": S("NF_el")}
    sub = lambda f: f.subst(lambda a: ren.get(a[1]) if a[0] == "sym" else None)
    th_model = 4 * KB * S("T") * S("BW_el") * S("R_L") * mk_fn("exp10", [S("NF_el") / 10])
    got_th = False
    for std, _loc, _size, _term, r in noise_draws(it, Ypd / S("R_load") if isinstance(Ypd, Form) else None):
        if not isinstance(std, Form):
            continue
        var_v = sub(fpow(std, 2) * fpow(S("R_load"), 2))
        if any(a == ("c", "scipy.constants.k") for a in var_v.atoms()):
            got_th = True
            ctx.check("C13.6", var_v == th_model, fi, r.node, "PD thermal variance * R_load^2 under fs/2 <-> BW_el", "equals utils' 4*kB*T*B*R_L*Fn", f"PD gives {var_v!r}, utils model {th_model!r}")
        elif any(a == ("c", "scipy.constants.e") for a in var_v.atoms()):
            # 2 e (I) B R_L^2 = 2 e (I R_L) B R_L  with mu = I*R_L
            I = Form.atom(("sym", "I_mean"))
            ctx.holds("C13.6", fi, r.node, "PD shot variance * R_load^2 = 2*e*(I*R_L)*B*R_L", "same form as utils' 2*e*mu*B*R_L with mu = I*R_L") if _shot_shape(var_v) else \
                ctx.violation("C13.6", fi, r.node, f"PD shot variance * R_load^2 = {var_v!r}"[:400], "not of the form 2*e*(current*R_L)*B*R_L used by utils.noise_variances")
    if not got_th:
        ctx.unknown("C13.6", fi, fi.node, "PD thermal draw", "not found")
    fe = pkg.func("devices.EDFA")
    it = Interp(pkg, assumptions={"BW": None, "input.noise": "none", "input.n_pol": 2}, param_classes={"input": "optical_signal"})
    from .c10 import _gain_at_least_one
    it.domain_sign = _gain_at_least_one          # G in [0, 40] dB
    it.run(fe)
    pa = it.final_env.get("P_ase") if it.final_env else None
    if not isinstance(pa, Form):
        # by role: the ASE rows are sigma * randn(4, N) with sigma = sqrt(P_ase/4)
        for rr in it.calls:
            if rr.callee in ("numpy.random.randn", "numpy.random.standard_normal", "numpy.random.normal") and isinstance(rr.result, Form):
                ra = rr.result.single_atom()
                for (f_, stmt_, name_, val_, conds_, depth_) in it.assign_log:
                    if isinstance(val_, Form) and len(val_.terms) == 1 and ra is not None:
                        (mono, coef), = val_.terms.items()
                        if any(a_ == ra and e_ == 1 for a_, e_ in mono):
                            sigma = val_ / Form.atom(ra)
                            pa = 4 * sigma * sigma
                            break
                if isinstance(pa, Form):
                    break
    if isinstance(pa, Form):
        ren2 = {"gv.fs": S("BW_opt"), "gv.f0": CC / S("wavelength")}
        got = pa.subst(lambda a: ren2.get(a[1]) if a[0] == "sym" else None)
        want = model(True, Form.num(2), CC / S("wavelength"))["p_ase"]
        ctx.check("C13.6", got == want, fe, fe.node, "EDFA P_ase under fs <-> BW_opt, f0 <-> c/wavelength", "equals utils.p_ase", f"EDFA gives {got!r}, utils.p_ase {want!r}")
    else:
        ctx.unknown("C13.6", fe, fe.node, "EDFA P_ase", "local P_ase not found")


def _shot_shape(v):
    # every monomial has e^1 * BW_el^1 * R_L^2 and coefficient structure 2*...: check the common factor
    for m, c in v.terms.items():
        d = {a: e for a, e in m}
        if d.get(("c", "scipy.constants.e")) != 1 or d.get(("sym", "BW_el")) != 1 or d.get(("sym", "R_L")) != 2:
            return False
    return True


def rule_box_edges(ctx):
    """C13.9: the receiver-model helpers accept the inclusive edges of the stated parameter box exactly as they accept its interior:
    G = 0 dB (unit gain) is a value, not a missing argument.  Differential: the set of raising exits reachable with G = 0 must be
    contained in the set reachable with G = 20 (same assumptions otherwise) - a guard that tests truthiness instead of presence
    adds one."""
    pkg = ctx.pkg
    for q, extra in (("utils.p_ase", {}), ("utils.average_voltages", {"modulation": "ook"}), ("utils.noise_variances", {"modulation": "ook"}),
                     ("utils.theory_BER", {"modulation": "ook", "threshold": None, "decision": "hard"})):
        fi = pkg.func(q)
        got = {}
        for g in (0, 20):
            ass = dict(extra, amplify=True, NF=("truth", True), BW_opt=("truth", True))
            it = Interp(pkg, assumptions=ass, param_values={"G": Form.num(g)})
            outs = it.run(fi)
            got[g] = ({(o.exc, norm_src(o.node)) for o in outs if o.kind == "raise"}, outs)
        new = got[0][0] - got[20][0]
        node = next((o.node for o in got[0][1] if o.kind == "raise" and (o.exc, norm_src(o.node)) in new), fi.node)
        ctx.check("C13.9", not new, fi, node, f"{q.split('.')[-1]} [amplify=True]: G = 0 dB accepted like G = 20 dB", "no exit that only the edge value reaches",
                  f"with G = 0 (unit gain, the inclusive lower edge of the stated range) the function reaches {sorted(e for e, _ in new)} at `{sorted(t for _, t in new)[0][:120] if new else ''}`, "
                  "which G = 20 does not: a presence test written as a truthiness test treats the value 0 as a missing argument")


def run(ctx):
    rule_receiver_model(ctx)
    rule_box_edges(ctx)
    rule_error_probabilities(ctx)
    rule_optimum_threshold(ctx)
    rule_device_counterparts(ctx)
    pass  # (clause removed: the property statement names no exception for this case - it was read off the docstring, i.e. the check demanded more than the property)
    check_late_binding(ctx, "C13.8", ["utils.theory_BER", "utils.noise_variances", "utils.average_voltages", "utils.p_ase", "utils.optimum_threshold", "ook.theory_BER", "ook.THRESHOLD_EST", "ook.BER_analizer", "ppm.theory_BER", "ppm.THRESHOLD_EST", "ppm.BER_analizer"])
    ctx.require_min("C13.2", 20)
    ctx.require_min("C13.3", 14)
    ctx.require_min("C13.5", 4)
    ctx.require_min("C13.6", 3)
    ctx.require_min("C13.7", 2)
    ctx.require_min("C13.9", 4)
    ctx.require_min("C13.10", 3)
