"""C14 - global grid consistent over any call history; devices pure w.r.t. gv and their arguments; one randomness source."""
from __future__ import annotations

import ast
import itertools
from fractions import Fraction

from ..absint import Interp, ObjV, State
from ..effects import Effects, SAMPLE_FIELDS
from ..forms import Const, Form, fpow, mk_fn
from ..rules import PI, S, body_nodes
from ..srcmodel import PKG, Package, src_of

EXPLANATION = (
    "Whole-package effect summaries plus an inductive invariant check of typing.global_variables. C14.1: the only code that assigns, "
    "deletes, setattr/delattr's or calls the global `gv` object lies inside global_variables' own methods (resolved through import "
    "tables, so aliases are seen); a positive control (an embedded writer) must be flagged on every run. C14.2: no default argument, "
    "class attribute or module-level statement reads gv at definition time. C14.3: assuming the grid invariant before the call "
    "(fs=R*sps, dt=1/fs, f0=c/wavelength and, when a slot count is in effect, t/w/dw built from N, sps, fs, dt), every one of the 32 "
    "paths through __call__ (sps/R/fs given or not, N given or not, N previously in effect or not) re-establishes it for the values "
    "now in force (value forms compared; int(round(x)) = x under the commensurability premise of the statement). C14.4: clean() "
    "assigns the defaults of __init__ (equal forms) and deletes every other attribute. C14.5: no public function of devices/ppm/ook/"
    "utils/lab writes the sample arrays or sample fields of an argument (transitively). C14.6: every nondeterminism source reachable "
    "from a public function is a numpy.random global-state function or an sklearn estimator drawing from it; time flows only through "
    "the tic/toc timer. C14.7: returned objects/arrays alias no argument. Not decided: numerical grid values, reproducibility of "
    "third-party code given the seed.")
EXPLANATION += (" Added after the audit wave: C14.4 clean() builds its delete list by NAME from the instance dictionary; a filter on the attribute's value (e.g. `not callable`) lets functions, classes and signal objects survive.")
EXPLANATION += (" Second audit wave: C14.5 an in-place operator on a parameter that was not rebound first (`D *= k`) is a write to the caller's array whenever an array is passed (parameters annotated int/bool/str excepted).")
TRUSTED = ["numpy/scipy/sklearn copy-vs-view and randomness semantics as summarised in ocv/effects.py", "sklearn KMeans(random_state=None) draws from numpy's global RandomState", "CPython ast"]

GV_CLASS = "global_variables"
ALLOWED_RAND = {"numpy.random.normal", "numpy.random.randn", "numpy.random.randint", "numpy.random.choice", "numpy.random.rand",
                "numpy.random.random", "numpy.random.uniform", "numpy.random.standard_normal", "numpy.random.random_sample", "numpy.random.poisson",
                "numpy.random.exponential", "numpy.random.permutation"}
NOT_DEVICES = {"utils.bode": "plotting helper: returns its own argument by design", "utils.tic": "timer", "utils.toc": "timer", "utils.get_time": "timing helper",
               "lab.search_inst": "instrument I/O", "lab.connect_inst": "instrument I/O"}


def public_functions(pkg):
    out = []
    for mn in ("devices", "ppm", "ook", "utils", "lab"):
        m = pkg.module(mn)
        for q, fi in m.funcs.items():
            if fi.cls is None and fi.parent is None and not fi.name.startswith("_") and q not in NOT_DEVICES:
                out.append(fi)
    return out


def rule_gv_writers(ctx, eff, label=""):
    pkg = ctx.pkg
    n = 0
    for q, s in eff.sum.items():
        inside = s.fi.cls == GV_CLASS or (s.fi.parent is not None and s.fi.parent.cls == GV_CLASS)
        for node, desc in s.gv_writes:
            n += 1
            if inside:
                continue
            ctx.violation("C14.1", s.fi, node, f"{desc} in {q}", "code outside global_variables' own methods modifies the global `gv`: devices/codecs must only read it")
        if not inside:
            from ..effects import GV_ROOT
            for (p_, path), node in s.mutates.items():
                if p_ == GV_ROOT:
                    n += 1
                    ctx.violation("C14.1", s.fi, node, f"in-place write to gv{path} through an alias in {q}: {src_of(node)[:100]}",
                                  "an array of the global grid (gv.t / gv.w) reached this code by reference and is modified in place: every later device sees a corrupted grid until gv is rebuilt")
    # module level statements
    for m in pkg.modules.values():
        for st in m.tree.body:
            if isinstance(st, (ast.FunctionDef, ast.ClassDef, ast.Import, ast.ImportFrom)):
                continue
            for sub in ast.walk(st):
                tgt = None
                if isinstance(sub, (ast.Assign, ast.AugAssign, ast.Delete)):
                    tgts = sub.targets if not isinstance(sub, ast.AugAssign) else [sub.target]
                    for t in tgts:
                        root = t
                        while isinstance(root, (ast.Attribute, ast.Subscript)):
                            root = root.value
                        if isinstance(t, (ast.Attribute, ast.Subscript)) and isinstance(root, ast.Name) and pkg.resolve_name(m, None, root.id) == f"{PKG}.typing.gv":
                            ctx.violation("C14.1", None, None, f"module {m.name}: {src_of(sub)}", "module-level statement modifies gv at import time")
                elif isinstance(sub, ast.Call):
                    f = sub.func
                    root = f
                    while isinstance(root, (ast.Attribute,)):
                        root = root.value
                    if isinstance(root, ast.Name) and pkg.resolve_name(m, None, root.id) == f"{PKG}.typing.gv" and (isinstance(f, ast.Name) or (isinstance(f, ast.Attribute) and f.attr in ("clean", "__call__"))):
                        ctx.violation("C14.1", None, None, f"module {m.name}: {src_of(sub)}", "module-level call reconfigures gv at import time")
    return n


def rule_late_binding(ctx, eff):
    pkg = ctx.pkg
    nfun = 0
    for q, s in eff.sum.items():
        nfun += 1
        for d, txt in s.defaults_gv:
            ctx.violation("C14.2", s.fi, s.fi.node, f"default argument `{txt}` of {q}", "a default argument reads gv when the function is defined: the grid in force at call time is ignored")
    for m in pkg.modules.values():
        for st in m.tree.body:
            vals = []
            if isinstance(st, ast.Assign):
                vals.append((st, st.value))
            elif isinstance(st, ast.ClassDef):
                for c in st.body:
                    if isinstance(c, ast.Assign):
                        vals.append((c, c.value))
            for stmt, v in vals:
                for sub in ast.walk(v):
                    if isinstance(sub, ast.Attribute):
                        r = pkg.resolve_expr(m, None, sub)
                        if r and r.startswith(f"{PKG}.typing.gv."):
                            ctx.violation("C14.2", None, None, f"module {m.name}: {src_of(stmt)}", "module/class-level value captured from gv at import time")
    # memoised functions must not depend on gv: the cached value is frozen at the first call for given arguments
    n_memo = 0
    for q, s in eff.sum.items():
        if s.memoised is None:
            continue
        n_memo += 1
        reads = []
        for r in eff.reachable(q):
            for node in eff.sum[r].reads_gv:
                reads.append((r, node))
        if reads:
            r, node = reads[0]
            ctx.violation("C14.2", s.fi, s.fi.node, f"{q} is cached ({src_of(s.memoised)}) but reads {src_of(node)}" + (f" (in {r})" if r != q else ""),
                          "a memoised function captures the gv value of its first call with given arguments: after gv(...) is reconfigured the stale result is reused (the grid in force at call time is ignored)")
        else:
            ctx.holds("C14.2", s.fi, s.fi.node, f"{q} is cached and does not read gv", "cache key covers everything the result depends on")
    # hand-written caches: module-level containers written by a function that reads gv with a key that does not
    for q, s in eff.sum.items():
        for node, name in s.global_writes:
            if q.startswith("utils._Timer") or name in ("_timer_instance",):
                continue
            reads = [n for r in eff.reachable(q) for n in eff.sum[r].reads_gv]
            key_src = src_of(node.targets[0].slice) if isinstance(node, ast.Assign) and isinstance(node.targets[0], ast.Subscript) else ""
            if reads and "gv" not in key_src:
                ctx.violation("C14.2", s.fi, node, f"{q} stores into module-level `{name}`: {src_of(node)[:100]}",
                              "a module-level cache/state is filled by a function that reads gv, keyed without the gv values it depends on: results depend on what was called before a gv(...) change")
    ctx.holds("C14.2", None, None, f"{nfun} function signatures, {n_memo} memoised functions and all module/class-level assignments", "no definition-time or first-call capture of gv")


def _unround(f):
    def fn(a):
        if a[0] == "fn" and a[1] == "int" and len(a[2]) == 1 and isinstance(a[2][0], Form):
            inner = a[2][0].single_atom()
            if inner and inner[0] == "fn" and inner[1] == "round" and isinstance(inner[2][0], Form):
                return _unround(inner[2][0])
        return None
    return f.subst(fn) if isinstance(f, Form) else f


def grid_formulas(N, sps, fs, dt):
    n = N * sps
    t = mk_fn("linspace", [Form.num(0), N * sps * dt, n], [("endpoint", Const(True))])
    dw = 2 * PI * fs / n
    w = 2 * PI * mk_fn("fftshift", [mk_fn("fftfreq", [n])]) * fs
    return t, dw, w


def rule_grid_invariant(ctx):
    pkg = ctx.pkg
    call = pkg.find_method("typing", GV_CLASS, "__call__")
    CC = Form.atom(("c", "scipy.constants.c"))
    oR, osps, oN, owl = S("self.R"), S("self.sps"), S("self.N"), S("self.wavelength")
    ofs = oR * osps
    odt = 1 / ofs
    ot, odw, ow = grid_formulas(oN, osps, ofs, odt)
    hyp = {"self.fs": ofs, "self.dt": odt, "self.f0": CC / owl, "self.t": ot, "self.dw": odw, "self.w": ow}

    def assume(f):
        return _unround(f.subst(lambda a: hyp.get(a[1]) if a[0] == "sym" else None)) if isinstance(f, Form) else f

    agg = {}
    for tsps, tR, tfs, nN, oldN in itertools.product((True, False), (True, False), (True, False), ("notnone", "none"), ("notnone", "none")):
        case = f"sps {'given' if tsps else 'omitted'}, R {'given' if tR else 'omitted'}, fs {'given' if tfs else 'omitted'}, N {'given' if nN == 'notnone' else 'omitted'}, N previously {'set' if oldN == 'notnone' else 'unset'}"
        giv = lambda t_: ("truth", True) if t_ else None          # an omitted argument is its default, None
        ass = {"sps": giv(tsps), "R": giv(tR), "fs": giv(tfs), "N": nN, "self.N": oldN, "kargs": ("truth", False)}
        it = Interp(pkg, self_class=GV_CLASS, assumptions=ass)
        it.domain_sign = _positive_slot_count          # the grid clause is about a slot count in effect: N >= 1
        outs = it.run(call)
        rets = [o for o in outs if o.kind == "return"]
        if len(rets) != 1 or not isinstance(rets[0].value, ObjV):
            ctx.unknown("C14.3", call, call.node, f"gv(...) [{case}]", f"{len(rets)} return paths")
            continue
        F = rets[0].value.fields

        def new(name):
            v = F.get(name)
            return assume(v) if v is not None else assume(S("self." + name))
        R1, sps1, fs1, dt1, wl1, f01 = new("R"), new("sps"), new("fs"), new("dt"), new("wavelength"), new("f0")
        node = rets[0].node
        probs = []
        if not (isinstance(fs1, Form) and isinstance(R1, Form) and isinstance(sps1, Form) and fs1 == R1 * sps1):
            probs.append(("fs = R*sps", f"fs={fs1!r}, R*sps={(R1 * sps1)!r}" if isinstance(R1, Form) and isinstance(sps1, Form) else "non-numeric"))
        if not (isinstance(dt1, Form) and dt1 == 1 / fs1):
            probs.append(("dt = 1/fs", f"dt={dt1!r}, 1/fs={(1 / fs1)!r}"))
        if not (isinstance(f01, Form) and f01 == CC / wl1):
            probs.append(("f0 = c/wavelength", f"f0={f01!r}"))
        # sps stored as an integer
        raw_sps = F.get("sps")
        if raw_sps is not None and isinstance(raw_sps, Form):
            a = raw_sps.single_atom()
            if not (a and a[0] == "fn" and a[1] == "int"):
                probs.append(("sps is int(round(.))", f"sps={raw_sps!r}"))
        N1 = F.get("N")
        n_in_effect = (nN == "notnone") or (oldN == "notnone")
        if n_in_effect:
            Nn = assume(N1) if N1 is not None else oN
            if not isinstance(Nn, Form):
                probs.append(("N in effect", f"N={Nn!r}"))
            else:
                wt, wdw, ww = grid_formulas(Nn, sps1, fs1, dt1)
                for nm, want in (("t", wt), ("dw", wdw), ("w", ww)):
                    got = new(nm)
                    if not (isinstance(got, Form) and got == want):
                        changed = [k for k in ("sps", "R", "fs") if k in F]
                        probs.append((f"{nm} built from the current N, sps, fs", f"{nm} = {got!r} but the values now in force give {want!r}"
                                      + (f" ({', '.join(changed)} reassigned on this path, {nm} not recomputed: stale grid)" if nm not in F else "")))
        if probs:
            for what, why in probs:
                agg.setdefault(what, []).append((case, why, node))
        else:
            ctx.holds("C14.3", call, node, f"gv(...) [{case}]", "invariant re-established: fs=R*sps, dt=1/fs, f0=c/wavelength" + (", t/w/dw current" if n_in_effect else ""))
    for what, items in agg.items():
        case, why, node = items[0]
        ctx.violation("C14.3", call, node, f"gv(...): {what}", f"violated on {len(items)} of 32 call shapes, e.g. [{case}]: {why}"[:900])
    # custom attributes persist: setattr loop over kargs
    sets = [n for n in body_nodes(call) if isinstance(n, ast.Call) and src_of(n.func) == "setattr" and len(n.args) == 3 and src_of(n.args[0]) == "self"]
    ctx.check("C14.3", bool(sets), call, sets[0] if sets else call.node, "custom keywords stored with setattr(self, key, value)", "custom attributes persist", "custom keyword attributes are not stored on the instance")


def rule_clean(ctx):
    pkg = ctx.pkg
    init = pkg.find_method("typing", GV_CLASS, "__init__")
    clean = pkg.find_method("typing", GV_CLASS, "clean")
    vals = {}
    for f in (init, clean):
        it = Interp(pkg, self_class=GV_CLASS)
        it.run(f)
        d = {}
        for (sfi, stmt, tgt, val, conds, depth) in it.store_log:
            if tgt[0] == "attr" and isinstance(tgt[1], ObjV) and tgt[1].name == "self":      # at any depth: clean() may delegate to __init__ / a helper
                d[tgt[2]] = (val, stmt)
        vals[f.name] = d
    for name, (v, stmt) in vals["__init__"].items():
        if name not in vals["clean"]:
            ctx.violation("C14.4", clean, clean.node, f"clean(): attribute `{name}`", f"`{name}` is set by __init__ but not restored by clean(): a changed {name} survives clean()")
        else:
            cv, cst = vals["clean"][name]
            same = (isinstance(v, Form) and isinstance(cv, Form) and v == cv) or (isinstance(v, Const) and isinstance(cv, Const) and v == cv)
            ctx.check("C14.4", same, clean, cst, f"clean(): {name} = {cv!r}", f"default of __init__ ({v!r})", f"clean() sets {name} to {cv!r}, __init__'s default is {v!r}")
    # other attributes are deleted
    # the deletion loop may keep its name filter in a private helper: look through package callees of clean() (one level)
    scope = list(body_nodes(clean))
    for n in list(scope):
        if isinstance(n, ast.Call) and isinstance(n.func, ast.Name):
            r = pkg.resolve_name(clean.module, clean, n.func.id)
            if r and r.startswith(PKG + ".") and r.count(".") == 2:
                q = r.split(".", 1)[1]
                callee = pkg.module(q.split(".")[0]).funcs.get(q)
                if callee is not None:
                    scope.extend(body_nodes(callee))
    dels = [n for n in scope if isinstance(n, ast.Call) and src_of(n.func) == "delattr"]
    lst = None
    from ..forms import TupleV
    for n in scope:
        if isinstance(n, ast.Compare) and len(n.ops) == 1 and isinstance(n.ops[0], (ast.In, ast.NotIn)):
            # the kept-name collection may be a literal or a module-level constant: evaluate it
            comp = n.comparators[0]
            if isinstance(comp, ast.Name):
                # the collection held in a local assigned once (`builtin = ('sps', ...)`)
                defs_ = [a_.value for a_ in scope if isinstance(a_, ast.Assign) and len(a_.targets) == 1 and isinstance(a_.targets[0], ast.Name) and a_.targets[0].id == comp.id]
                if len(defs_) == 1:
                    comp = defs_[0]
            try:
                cv = Interp(pkg, self_class=GV_CLASS).eval(comp, State(), clean, 0)
            except Exception:
                cv = None
            if isinstance(cv, TupleV) and cv.items and all(isinstance(e, Const) and isinstance(e.v, str) for e in cv.items):
                lst = {e.v for e in cv.items}
                lnode = n
    # which custom attributes go is a matter of their NAME only: a filter on the value (`not callable(getattr(gv, attr))`, meant to skip
    # methods when listing dir()) keeps every custom attribute that holds a function, a class or a signal object
    by_value = [n for n in scope if isinstance(n, ast.Call) and isinstance(n.func, ast.Name) and n.func.id in ("callable", "isinstance", "type", "hasattr")
                and any(isinstance(x, ast.Call) and isinstance(x.func, ast.Name) and x.func.id == "getattr" for a_ in n.args for x in ast.walk(a_))]
    ctx.check("C14.4", not by_value, clean, by_value[0] if by_value else clean.node, "clean(): custom attributes selected by name", "every attribute that is not a default is deleted",
              f"the attributes to delete are filtered by their value (`{src_of(by_value[0]) if by_value else ''}`): a custom attribute holding a callable (np.hanning, a dtype, an "
              "electrical_signal) survives clean()")
    if not dels or lst is None:
        ctx.violation("C14.4", clean, clean.node, "clean(): custom attributes", "custom attributes are not deleted by clean()")
    else:
        want = set(vals["__init__"])
        ctx.check("C14.4", lst == want, clean, lnode, f"clean(): attributes kept = {sorted(lst)}", "exactly the defaults of __init__", f"kept set differs from __init__'s attributes {sorted(want)}: " +
                  ("a default attribute would be deleted" if want - lst else "a custom attribute would survive"))


def rule_purity(ctx, eff):
    pubs = public_functions(ctx.pkg)
    for fi in pubs:
        s = eff.sum[fi.qualname]
        bad = []
        for (p, path), node in s.mutates.items():
            if p in fi.params and not eff._is_scalar_param(fi, p) if False else p in fi.params:
                bad.append((p + path, node))
        for (p, path, attr), node in s.attr_writes.items():
            if p in fi.params and attr in SAMPLE_FIELDS:
                bad.append((f"{p}{path}.{attr}", node))
        bad.extend(inplace_on_params(fi))
        if bad:
            for what, node in bad:
                ctx.violation("C14.5", fi, node, f"{fi.qualname}: in-place write reaching argument data `{what}` via `{src_of(node)[:120]}`",
                              "the function modifies the sample data of one of its arguments: callers sharing that input see different data afterwards")
        else:
            ctx.holds("C14.5", fi, fi.node, f"{fi.qualname}: arguments' sample data", "never written (transitively)")
        roots = [(p, path) for (p, path) in s.ret if p in fi.params and not path.endswith((".size", ".shape", ".ndim", ".dtype", ".execution_time", ".n_pol"))]
        eff._ann = eff._annotations(fi)
        roots = [(p, path) for (p, path) in roots if not (path == "" and eff._is_scalar_param(fi, p))]
        # plain scalars passed through (numbers, strings) are not buffers: parameters whose every use is scalar arithmetic
        roots = [(p, path) for (p, path) in roots if not _scalar_like(fi, p)]
        if roots:
            ctx.violation("C14.7", fi, fi.node, f"{fi.qualname}: result may alias {sorted(set(p + path for p, path in roots))}", "an output shares memory with an input buffer")
        else:
            ctx.holds("C14.7", fi, fi.node, f"{fi.qualname}: outputs", "alias no argument")


_ALIASING = ("asarray", "asanyarray", "atleast_1d", "atleast_2d", "ravel", "reshape", "squeeze", "view", "transpose", "real", "imag")


_ARRAYISH = {}


def inplace_on_params(fi):
    """[(parameter, AugAssign node)]: an in-place operator applied to a name that still refers to the caller's object (`D *= k`):
    numbers are immutable and get rebound, an array held by the caller is overwritten - the caller's value changes and the same
    call repeated gives another result.  A name stops referring to the caller's object when it is bound to a NEW value;
    `p = np.asarray(p, dtype=float)`, `u = p.signal`, `phi = np.asarray(u)` are not new values (for an array of that dtype asarray
    returns the very same object; an attribute of a signal object is the object's own array)."""
    out = []
    alias = {p_: p_ for p_ in fi.params if _annotation(fi, p_) not in ("int", "bool", "str")}
    top = {id(st_) for st_ in fi.node.body}          # statements every call executes: only there does a new value END an alias
    # parameters annotated as numbers: their plain copies are scalars; every other parameter (arrays, signal objects, unannotated) aliases by name too
    _ARRAYISH[id(alias)] = {p_ for p_ in alias if not any(k == (_annotation(fi, p_) or "").replace(" ", "") for k in ("float", "int", "complex", "float|int", "int|float", "Number"))}
    for n in sorted((n for n in ast.walk(fi.node) if isinstance(n, (ast.Assign, ast.AnnAssign, ast.AugAssign, ast.For, ast.With))), key=lambda n: (n.lineno, n.col_offset)):
        if isinstance(n, ast.AugAssign):
            t = n.target
            if isinstance(t, ast.Name) and t.id in alias:
                out.append((alias[t.id], n))
            continue
        tgts = n.targets if isinstance(n, ast.Assign) else [n.target] if isinstance(n, (ast.AnnAssign, ast.For)) else [i.optional_vars for i in n.items if i.optional_vars is not None]
        value = getattr(n, "value", None) if isinstance(n, (ast.Assign, ast.AnnAssign)) else None
        for tg in tgts:
            if isinstance(tg, ast.Name):
                root = _alias_root(value, alias)
                if root is not None and isinstance(value, ast.Name) and root not in _ARRAYISH.get(id(alias), set()):
                    # a plain copy of a NUMBER-typed parameter under another name (`dz = length; z = dz; z += dz`) is ordinary scalar
                    # bookkeeping: only the parameter's own name, or a value that went through an array view / conversion, counts
                    root = None
                if root is not None:
                    alias[tg.id] = root
                elif id(n) in top:
                    alias.pop(tg.id, None)          # (a rebinding inside a branch leaves the other paths aliased: may-alias)
            elif id(n) in top:
                for x in ast.walk(tg):
                    if isinstance(x, ast.Name) and isinstance(x.ctx, ast.Store):
                        alias.pop(x.id, None)
    return out


def _alias_root(value, alias):
    """the argument whose object the assigned expression can return, or None for a new value"""
    if isinstance(value, ast.Name):
        return alias.get(value.id)
    if isinstance(value, ast.Attribute) and value.attr in ("signal", "noise", "data", "T", "real", "imag"):
        return _alias_root(value.value, alias)
    if isinstance(value, ast.Call):
        f = value.func
        fn = f.attr if isinstance(f, ast.Attribute) else f.id if isinstance(f, ast.Name) else ""
        if fn in _ALIASING:
            if value.args:
                r = _alias_root(value.args[0], alias)
                if r is not None:
                    return r
            if isinstance(f, ast.Attribute):
                return _alias_root(f.value, alias)
    return None


def rule_inplace(ctx, rule, qualnames):
    """the in-place clause of C14.5 for the devices another property owns (composition / repeatability clauses need it)"""
    for q in qualnames:
        fi = ctx.pkg.func(q)
        bad = inplace_on_params(fi)
        if bad:
            for p_, node in bad:
                ctx.violation(rule, fi, node, f"{fi.qualname}: in-place operator on the argument `{p_}` via `{src_of(node)[:80]}`",
                              "an array passed for this argument is overwritten in the caller: the same call repeated (or composed with itself) no longer gives the same result")
        else:
            ctx.holds(rule, fi, fi.node, f"{fi.qualname}: no in-place operator on an argument", "parameters are rebound to new values before any in-place update")


def _annotation(fi, p):
    a = fi.node.args
    for arg in a.posonlyargs + a.args + a.kwonlyargs:
        if arg.arg == p and arg.annotation is not None:
            return src_of(arg.annotation)
    return None


def _scalar_like(fi, p):
    """parameter only ever used as a number (never indexed, never attribute-accessed except in isinstance tests)"""
    for n in ast.walk(fi.node):
        if isinstance(n, ast.Subscript) and isinstance(n.value, ast.Name) and n.value.id == p:
            return False
        if isinstance(n, ast.Attribute) and isinstance(n.value, ast.Name) and n.value.id == p:
            return False
    ann = None
    a = fi.node.args
    for arg in a.posonlyargs + a.args + a.kwonlyargs:
        if arg.arg == p and arg.annotation is not None:
            ann = src_of(arg.annotation)
    if ann and any(k in ann for k in ("ndarray", "signal", "sequence", "list", "Iterable", "eye")):
        return False
    return True


def _positive_slot_count(d):
    """sign of a difference under `N >= 1`: N - c for a number c <= 1 is >= 0"""
    if isinstance(d, Form):
        rest = d - S("N")
        q = rest.rational() if isinstance(rest, Form) else None
        if q is not None and q >= -1:
            return "ge0" if q == -1 else 1
        rest = d + S("N")
        q = rest.rational() if isinstance(rest, Form) else None
        if q is not None and q <= 1:
            return "le0" if q == 1 else -1
    return None


def _is_new_function(fi):
    """a helper the pinned API does not have (added together with the option that reaches it)"""
    from ..absint import _api_snapshot
    snap = _api_snapshot()
    return fi.qualname not in snap


def _only_through_new_option(pkg, fi, dotted, need_new=False):
    """the call is not made when the function is interpreted with every parameter symbolic except options added after the pinned API
    (those keep their defaults): `source = np.random if rng is None else np.random.default_rng(rng)`"""
    from ..absint import Interp, _is_new_param
    a = fi.node.args
    if not any(_is_new_param(fi, x.arg) for x in a.posonlyargs + a.args + a.kwonlyargs):
        return False              # no option was added to this function: nothing to keep at its default
    try:
        it = Interp(pkg)
        it.run(fi)
    except Exception:
        return False
    if any("unhandled statement" in n_ for n_ in it.notes):
        return False
    return not any(r.callee == dotted for r in it.calls)


def rule_randomness(ctx, eff):
    pubs = public_functions(ctx.pkg)
    seen = set()
    for fi in pubs:
        for q in eff.reachable(fi.qualname):
            s = eff.sum[q]
            for dotted, node in s.rand:
                key = (q, dotted, getattr(node, "lineno", 0))
                if key in seen:
                    continue
                seen.add(key)
                cons = f"{dotted} in {q}: {src_of(node)[:100]}"
                if dotted in ALLOWED_RAND:
                    ctx.holds("C14.6", s.fi, node, cons, "numpy global random state")
                elif dotted.startswith("sklearn."):
                    rs = [k for k in node.keywords if k.arg == "random_state"] if isinstance(node, ast.Call) else []
                    ctx.holds("C14.6", s.fi, node, cons, "sklearn estimator" + (" with explicit random_state" if rs else " drawing from numpy's global state"))
                elif dotted.startswith("time.") and q.startswith("utils._Timer"):
                    ctx.holds("C14.6", s.fi, node, cons, "wall clock used only by the tic/toc timer (execution_time bookkeeping)")
                elif _only_through_new_option(ctx.pkg, s.fi, dotted) or (s.fi.qualname != fi.qualname and _is_new_function(s.fi) and _only_through_new_option(ctx.pkg, fi, dotted, need_new=True)):
                    ctx.holds("C14.6", s.fi, node, cons, "reached only through an option the documented API does not have (its default keeps numpy's global random state)")
                else:
                    ctx.violation("C14.6", s.fi, node, cons, "nondeterminism source other than numpy's global random state: np.random.seed(s) no longer determines the output")


def positive_control(ctx):
    """the zero-expected rules must fire on an embedded violating module"""
    pkg = ctx.pkg
    src = pkg.module("ook").src + "\n\ndef _ocv_control(x, fs=gv.fs):\n    gv.sps = 8\n    x.signal[0] = 0\n    import random\n    return random.random()\n"
    try:
        p2 = Package(pkg.root, sources={**{m.name: m.src for m in pkg.modules.values()}, "ook": src})
        e2 = Effects(p2)
        s = e2.sum["ook._ocv_control"]
        ok = bool(s.gv_writes) and bool(s.defaults_gv) and bool(s.mutates) and any(d.startswith("random.") for d, _ in s.rand)
    except Exception as ex:
        ok = False
    if ok:
        ctx.holds("C14.1", None, None, "positive control: embedded gv writer / default capture / in-place write / stdlib random", "all four are detected by the effect analysis")
    else:
        ctx.unknown("C14.1", None, None, "positive control", "the effect analysis failed to flag the embedded violating function")


def run(ctx):
    eff = Effects(ctx.pkg)
    n = rule_gv_writers(ctx, eff)
    ctx.holds("C14.1", None, None, f"{len(eff.sum)} functions/lambdas scanned, {n} gv-modifying statements, all inside global_variables", "only global_variables' methods write gv")
    positive_control(ctx)
    rule_late_binding(ctx, eff)
    rule_grid_invariant(ctx)
    rule_clean(ctx)
    rule_purity(ctx, eff)
    rule_randomness(ctx, eff)
    ctx.notes.append("noted, not part of any given property: DM/LPF/FBG return under retH without toc(); db() installs a global warnings filter; "
                     "global_variables.clean/__str__ use the module-level gv instead of self; ook.DSP writes execution_time on its argument")
    ctx.require_min("C14.3", 32)
    ctx.require_min("C14.4", 10)
    ctx.require_min("C14.5", 45)
    ctx.require_min("C14.6", 6)
    ctx.require_min("C14.7", 45)
