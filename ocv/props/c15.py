"""C15 - binary_sequence is a closed, immutable-by-operation algebra over {0,1} (typing.py)."""
from __future__ import annotations

import ast

from ..absint import Interp, ObjV, State
from ..effects import Effects, SAMPLE_FIELDS
from ..forms import Const, Form, TupleV, mk_fn
from ..rules import S, body_nodes, find_raise_guards
from ..srcmodel import src_of

EXPLANATION = (
    "typing.binary_sequence and the threshold comparisons of electrical_signal. C15.1: __init__ is interpreted; a ValueError exit is guarded "
    "by the value form not all((x==0)|(x==1)) (wherever it is written) and every constructing path passed it; ndim classes 2, 3 raise "
    "ValueError, 0 and 1 construct, a 0-d input is stored with a new axis, as .astype(np.uint8); for string input the shared parser converts "
    "characters by parsing (a non-digit raises), not by arithmetic on code points. C15.2: __getitem__, __add__, __radd__, __invert__, electrical_signal.__gt__/__lt__ and the codec "
    "functions (PRBS, PPM_ENCODER/DECODER, HDD, SDD) return objects built by the validating constructor. C15.3: effect summaries show "
    "no operand data is written and no result aliases an operand. C15.4: __add__ concatenates (self, other), __radd__ (other, self); "
    "binary_sequence/str/Array_Like are accepted, anything else raises TypeError/ValueError; non-0/1 content and ndim != 1 raise ValueError. "
    "C15.5: len = data.size, ones = sum(data), zeros = len - ones. C15.6: > and < compare self.abs() (|signal+noise|) with other.abs() "
    "using > and < respectively, and unequal lengths raise unless the right operand has length 1 (length classes (n,n), (n,1), (n,m), (1,n)). Not decided: the algebraic laws as such (they follow from numpy semantics given this structure).")
EXPLANATION += (" Added after the audit wave: C15.4 binary_sequence opts out of numpy's operator protocol (__array_ufunc__ = None) so that ndarray + sequence reaches __radd__; C15.2 the key of __getitem__ reaches the data unchanged; C15.5 ones()/zeros() count by value.")
TRUSTED = ["numpy.concatenate/astype/array allocate new arrays", "utils.str2array (C19)", "CPython ast"]


def zero_one_test(x):
    a = mk_fn("bor", [mk_fn("eq", [x, Form.num(0)]), mk_fn("eq", [x, Form.num(1)])])
    b = mk_fn("bor", [mk_fn("eq", [x, Form.num(1)]), mk_fn("eq", [x, Form.num(0)])])
    return [mk_fn("not", [mk_fn("all", [a])]), mk_fn("not", [mk_fn("all", [b])])]


def rule_init(ctx):
    pkg = ctx.pkg
    fi = pkg.find_method("typing", "binary_sequence", "__init__")
    stores = [n for n in body_nodes(fi) if isinstance(n, ast.Assign) and src_of(n.targets[0]) == "self.data"]
    if len(stores) != 1:
        ctx.unknown("C15.1", fi, fi.node, "binary_sequence.__init__ store of self.data", f"{len(stores)} stores")
        return
    store = stores[0]
    v = store.value
    ok = isinstance(v, ast.Call) and isinstance(v.func, ast.Attribute) and v.func.attr == "astype" and bool(v.args) and pkg.resolve_expr(fi.module, fi, v.args[0]) in ("numpy.uint8",)
    ctx.check("C15.1", ok, fi, store, src_of(store), "stored as uint8", "stored data is not normalised with .astype(np.uint8)")
    # 0/1 membership: a ValueError exit guarded by `not all((data == 0) | (data == 1))`, and every constructing path passed it
    it = Interp(pkg, self_class="binary_sequence", assumptions={"data": ("notinst", "str")})
    it.keep_cond_forms = True
    outs = it.run(fi)
    dform = S("data")
    tests = zero_one_test(dform)
    positive = [t.single_atom()[2][0] for t in tests]   # all(...)
    guard_txt = None
    for o in outs:
        if o.kind == "raise" and o.conds:
            txt, pol = o.conds[-1]
            cf = it.cond_forms.get(txt)
            if cf is not None and ((pol and cf in tests) or (not pol and cf in positive)):
                guard_txt = (txt, pol, o)
    rets = [o for o in outs if o.kind == "return"]
    nested_ok = None
    if guard_txt is None:
        # the validation may live in a helper that raises or returns: accepted when the helper is called on every path to the
        # store (its call is not under an undecided condition)
        for o in it.nested_raises:
            if o.conds:
                txt, pol = o.conds[-1]
                cf = it.cond_forms.get(txt)
                if cf is not None and ((pol and cf in tests) or (not pol and cf in positive)):
                    recs = [r for r in it.calls if r.depth == 0 and r.callee and r.callee.startswith("opticomlib.") and not r.conds
                            and getattr(r.node, "lineno", 10**9) < store.lineno]
                    if recs:
                        nested_ok = o
    if guard_txt is None and nested_ok is not None:
        if nested_ok.exc != "ValueError":
            ctx.violation("C15.1", fi, nested_ok.node, "binary_sequence.__init__: 0/1 membership guard", f"raises {nested_ok.exc}, documented ValueError")
        else:
            ctx.holds("C15.1", fi, nested_ok.node, "binary_sequence.__init__: 0/1 membership guard", "elements other than 0/1 -> ValueError in a validation helper called before the store on every path")
    elif guard_txt is None:
        ctx.violation("C15.1", fi, fi.node, "binary_sequence.__init__: 0/1 membership guard", "no guard rejecting elements other than 0/1")
    elif guard_txt[2].exc != "ValueError":
        ctx.violation("C15.1", fi, guard_txt[2].node, "binary_sequence.__init__: 0/1 membership guard", f"raises {guard_txt[2].exc}, documented ValueError")
    elif not rets or any((guard_txt[0], not guard_txt[1]) not in o.conds for o in rets):
        ctx.violation("C15.1", fi, guard_txt[2].node, "binary_sequence.__init__: 0/1 membership guard", "guard does not precede the store of self.data on every path")
    else:
        ctx.holds("C15.1", fi, guard_txt[2].node, "binary_sequence.__init__: 0/1 membership guard", "elements other than 0/1 -> ValueError before the store")
    # dimensionality: ndim touched only through comparisons with small integers; classes 0, 1, 2, 3
    probs, where = [], fi.node
    for nd in (0, 1, 2, 3):
        it2 = Interp(pkg, self_class="binary_sequence", assumptions={"data": ("notinst", "str"), "data.ndim": nd}, valuation=[(S("data.size"), 1 if nd == 0 else 6)])
        o2 = it2.run(fi)
        r2 = [o for o in o2 if o.kind == "return"]
        if nd >= 2:
            if r2:
                probs.append(f"{nd}-dimensional data is accepted")
            elif not o2 or o2[-1].exc != "ValueError":
                probs.append(f"{nd}-dimensional data raises {o2[-1].exc if o2 else None}, documented ValueError")
                where = o2[-1].node if o2 else fi.node
        else:
            if not r2:
                probs.append(f"{nd}-dimensional data is rejected")
                where = o2[-1].node if o2 else fi.node
            elif nd == 0:
                st0 = [x for x in it2.store_log if x[5] == 0 and x[2][0] == "attr" and x[2][2] == "data"]
                okv = [Form.atom(("idx", dform, Const(None))), mk_fn("reshape", [dform, Form.num(1)]), mk_fn("reshape", [dform, Form.num(-1)]), mk_fn("atleast_1d", [dform]), mk_fn("ravel", [dform])]
                promoted = len(st0) == 1 and (any(st0[0][3] == w for w in okv) or
                                              (st0[0][3] == dform and any(r.callee == "numpy.atleast_1d" and r.args and r.args[0] == dform and r.depth == 0 for r in it2.calls)))
                ctx.check("C15.1", promoted, fi, st0[0][1] if st0 else fi.node, "0-d input promoted to one element", "data[np.newaxis]", "scalar input is not promoted to a 1-D array")
    if probs:
        ctx.violation("C15.1", fi, where, "binary_sequence.__init__: dimensionality guard", "no guard rejecting data with more than one dimension: " + "; ".join(probs))
    else:
        ctx.holds("C15.1", fi, fi.node, "binary_sequence.__init__: dimensionality guard", "data with more than one dimension -> ValueError before the store (ndim classes 0..3)")


def rule_closure(ctx, eff):
    pkg = ctx.pkg
    for meth, ass, pc in (("__getitem__", {}, {}), ("__add__", {}, {"other": "binary_sequence"}), ("__radd__", {}, {"other": "binary_sequence"}), ("__invert__", {}, {})):
        m = pkg.find_method("typing", "binary_sequence", meth)
        it = Interp(pkg, self_class="binary_sequence", assumptions=ass, param_classes=pc)
        outs = it.run(m)
        rets = [o for o in outs if o.kind == "return"]
        ok = bool(rets) and all(isinstance(r.value, ObjV) and r.value.cls == "binary_sequence" for r in rets)
        ctx.check("C15.2", ok, m, rets[0].node if rets else m.node, f"binary_sequence.{meth} returns binary_sequence(...)", "validating constructor", f"{meth} returns a bare value instead of a validated binary_sequence")
        if meth == "__getitem__" and ok:
            # indexing is numpy's own: the key goes to the stored array as it came (every slice, negative steps and open bounds included)
            key = [a.arg for a in m.node.args.args if a.arg != "self"]
            wantd = Form.atom(("idx", S("self.data"), S(key[0]))) if key else None
            bad = [r for r in rets if not (isinstance(r.value.fields.get("data"), Form) and r.value.fields.get("data") == wantd)]
            ctx.check("C15.2", not bad, m, (bad[0].node if bad else rets[0].node), f"binary_sequence.__getitem__: data = {(bad[0] if bad else rets[0]).value.fields.get('data')!r}"[:300], "self.data[key] with the key as given",
                      "the key is rewritten before it reaches the array (e.g. slice.indices(): its stop of -1 for a negative step means 'past index 0' and, fed back into a slice, means 'last element'): "
                      "a[::-1] and other slices no longer select what numpy selects")
        s = eff.sum[m.qualname]
        roots = [(p, path) for (p, path) in s.ret if not path.endswith((".size", ".shape"))]
        ctx.check("C15.3", not roots and not s.mutates, m, m.node, f"binary_sequence.{meth}: result fresh, operands unwritten", "no aliasing, no in-place write",
                  f"result may alias {sorted(p + path for p, path in roots)} / writes {sorted(p + path for p, path in s.mutates)}")
    init = pkg.find_method("typing", "binary_sequence", "__init__")
    ctx.check("C15.3", not eff.sum[init.qualname].stored, init, init.node, "binary_sequence.__init__ stored array", "fresh copy", "constructor keeps a reference to the caller's array")
    # `+` in both orders with every accepted container: for a numpy array on the LEFT, ndarray.__add__ runs first and tries to coerce
    # the sequence element by element (ValueError) unless the class opts out of numpy's operators: only then Python falls back to __radd__
    ci = pkg.module("typing").classes.get("binary_sequence")
    radd = pkg.find_method("typing", "binary_sequence", "__radd__")
    au = ci.class_consts.get("__array_ufunc__") if ci is not None else None
    ok_au = isinstance(au, ast.Constant) and au.value is None
    ctx.check("C15.4", ok_au and radd is not None, radd or init, (au if au is not None else (radd.node if radd else init.node)), "binary_sequence: ndarray + sequence reaches __radd__", "__array_ufunc__ = None",
              "the class does not set `__array_ufunc__ = None`: with a numpy array as the LEFT operand numpy's own `+` runs (and fails coercing the sequence) instead of deferring to "
              "binary_sequence.__radd__ - concatenation in that order raises ValueError for an accepted container")
    for meth in ("__gt__", "__lt__"):
        m = pkg.find_method("typing", "electrical_signal", meth)
        it = Interp(pkg, self_class="electrical_signal", assumptions={"self.noise": "notnone", "other": ("notinst", "electrical_signal")})
        outs = it.run(m)
        rets = [o for o in outs if o.kind == "return"]
        ok = len(rets) == 1 and isinstance(rets[0].value, ObjV) and rets[0].value.cls == "binary_sequence"
        ctx.check("C15.2", ok, m, rets[0].node if rets else m.node, f"electrical_signal.{meth} returns binary_sequence(...)", "validating constructor", f"{meth} does not return a binary_sequence")
        if ok:
            d = rets[0].value.fields.get("data")
            op = "gt" if meth == "__gt__" else "lt"
            want = mk_fn(op, [mk_fn("abs", [S("self.signal") + S("self.noise")]), mk_fn("abs", [S("other")])])
            ctx.check("C15.6", isinstance(d, Form) and d == want, m, rets[0].node, f"electrical_signal.{meth}: data = {d!r}", f"|signal+noise| {'>' if op == 'gt' else '<'} |threshold|",
                      f"comparison is not {want!r}")
    # the comparison yields one bit per sample: a threshold array must have the signal's length (or one element); decided on
    # length classes - lengths are only compared with each other and with 1
    from ..rules import _concrete_run
    for meth in ("__gt__", "__lt__"):
        m = pkg.find_method("typing", "electrical_signal", meth)
        la = mk_fn("siglen", [S("self.signal")])
        probs, where = [], m.node
        for kind, pc, ass, lbs in (("electrical_signal", {"other": "electrical_signal"}, {"self.noise": "none", "other.noise": "none"}, [mk_fn("siglen", [S("other.signal")])]),):
            for na, nb in ((5, 3), (1, 5), (5, 5), (5, 1)):
                rej, e, out, _i = _concrete_run(pkg, m, {}, ass, pc, [(la, na)] + [(x, nb) for x in lbs], self_class="electrical_signal")
                must = na != nb and nb != 1
                if must and not rej:
                    probs.append(f"a signal of {na} sample(s) compared with a threshold of {nb} is accepted: the result does not have the signal's length")
                elif must and e != "ValueError":
                    probs.append(f"lengths {na} vs {nb} raise {e}, documented ValueError")
                elif not must and rej:
                    probs.append(f"compatible lengths {na} vs {nb} are rejected ({e})")
                if out is not None and (rej or must):
                    where = out.node
        ctx.check("C15.6", not probs, m, where, f"electrical_signal.{meth}: threshold length", "equal lengths or a one-element threshold; anything else -> ValueError (4 length classes)", "; ".join(probs[:2]))
    for q, setup in (("devices.PRBS", dict(param_values={"order": Form.num(7)}, assumptions={"seed": "notnone", "len": "notnone"})),
                     ("ppm.PPM_ENCODER", dict(param_classes={"input": "binary_sequence"}, param_values={"M": Form.num(4)})),
                     ("ppm.PPM_DECODER", dict(param_classes={"input": "binary_sequence"}, param_values={"M": Form.num(4)})),
                     ("ppm.HDD", dict(param_classes={"input": "binary_sequence"}, param_values={"M": Form.num(4)})),
                     ("ppm.SDD", dict(param_classes={"input": "electrical_signal"}, param_values={"M": Form.num(4)}, assumptions={"input.noise": "none"}))):
        f = pkg.func(q)
        # by interpretation first: whatever the spelling (helper that stamps the time, conditional expression, tuple), every
        # returned sequence is an object built by the validating constructor
        itq = Interp(pkg, **setup)
        try:
            outs_q = itq.run(f)
        except Exception:
            outs_q = []
        vals = []
        for o in outs_q:
            if o.kind == "return":
                v_ = o.value
                alts = [v_]
                a_ = v_.single_atom() if isinstance(v_, Form) else None
                if a_ is not None and a_[0] == "fn" and a_[1] == "ifexp" and len(a_[2]) == 3:
                    alts = [a_[2][1], a_[2][2]]
                for x_ in alts:
                    vals.append(x_.items[0] if isinstance(x_, TupleV) and x_.items else x_)
        raw = [x for x in itq.store_log if x[5] == 0 and x[2][0] == "attr" and x[2][2] == "data" and any(x[2][1] is v_ for v_ in vals)]
        if raw:
            ctx.violation("C15.2", f, raw[0][1], f"{q}: `{src_of(raw[0][1])[:80]}`", "the data of the returned sequence is replaced after construction: the 0/1 validation of the constructor is bypassed")
            continue
        if vals and all(isinstance(x_, ObjV) and x_.cls == "binary_sequence" for x_ in vals):
            ctx.holds("C15.2", f, f.node, f"{q} returns binary_sequence(...)", f"validating constructor (all {len(vals)} returned values are constructed binary_sequence objects)")
            continue
        rets = [n for n in body_nodes(f) if isinstance(n, ast.Return) and n.value is not None]
        ok = True
        for r in rets:
            v = r.value.elts[0] if isinstance(r.value, ast.Tuple) else r.value
            if isinstance(v, ast.Name):
                asg = [n for n in body_nodes(f) if isinstance(n, ast.Assign) and isinstance(n.targets[0], ast.Name) and n.targets[0].id == v.id and n.lineno < r.lineno]
                last = max(asg, key=lambda n: n.lineno) if asg else None
                ok = ok and last is not None and isinstance(last.value, ast.Call) and pkg.resolve_expr(f.module, f, last.value.func) == "opticomlib.typing.binary_sequence"
            else:
                ok = ok and isinstance(v, ast.Call) and pkg.resolve_expr(f.module, f, v.func) == "opticomlib.typing.binary_sequence"
        ctx.check("C15.2", ok and bool(rets), f, rets[0] if rets else f.node, f"{q} returns binary_sequence(...)", "validating constructor", f"{q} returns data that did not pass the validating constructor")


def rule_concat(ctx):
    pkg = ctx.pkg
    for meth, order in (("__add__", ("self.data", "other")), ("__radd__", ("other", "self.data"))):
        m = pkg.find_method("typing", "binary_sequence", meth)
        for kind, ass, pc, oform in (("binary_sequence", {}, {"other": "binary_sequence"}, S("other.data")),
                                     ("list", {"other": ("inst", "list")}, {}, S("other")),
                                     ("ndarray", {"other": ("inst", "numpy.ndarray", "ndarray")}, {}, S("other"))):
            it = Interp(pkg, self_class="binary_sequence", assumptions=ass, param_classes=pc, no_inline=("str2array",))
            it.keep_cond_forms = True
            outs = it.run(m)
            rets = [o for o in outs if o.kind == "return"]
            case = f"binary_sequence.{meth} [other: {kind}]"
            if len(rets) != 1 or not isinstance(rets[0].value, ObjV):
                ctx.unknown("C15.4", m, m.node, case, f"{len(rets)} return paths")
                continue
            d = rets[0].value.fields.get("data")
            parts = {"self.data": S("self.data"), "other": oform}
            want = mk_fn("concatenate", [TupleV([parts[order[0]], parts[order[1]]])])
            ctx.check("C15.4", isinstance(d, Form) and d == want, m, rets[0].node, f"{case}: data = {d!r}", f"concatenate(({order[0]}, {order[1]}))",
                      f"operands are concatenated in the wrong order or altered (expected {want!r})")
            raises = [o for o in outs if o.kind == "raise"] + list(it.nested_raises)
            tests = zero_one_test(oform)
            positive = [t.single_atom()[2][0] for t in tests]
            v01 = False
            for o in raises:
                if o.exc == "ValueError" and o.conds:
                    cf = it.cond_forms.get(o.conds[-1][0])
                    if cf is not None and ((o.conds[-1][1] and cf in tests) or (not o.conds[-1][1] and cf in positive)):
                        v01 = True
            # dimensionality decided on ndim classes 1 (accepted) and 2 (rejected)
            nd_atom = S("other.data.ndim") if kind == "binary_sequence" else S("other.ndim")
            vnd = True
            for nd in (1, 2):
                itn = Interp(pkg, self_class="binary_sequence", assumptions=ass, param_classes=pc, no_inline=("str2array",), valuation=[(nd_atom, nd)])
                on = itn.run(m)
                rn = [o for o in on if o.kind == "return"]
                if nd == 2 and (rn or not on or on[-1].exc != "ValueError"):
                    vnd = False
                if nd == 1 and not rn:
                    vnd = False
            ctx.check("C15.4", v01 and vnd, m, m.node, f"{case}: content/dimension validation", "non-0/1 content and ndim != 1 -> ValueError", "operand validation (0/1 content, one dimension) -> ValueError is missing")
        it = Interp(pkg, self_class="binary_sequence", assumptions={"other": ("notinst", "binary_sequence", "str", "list", "tuple", "numpy.ndarray", "ndarray")})
        outs = it.run(m)
        ok = bool(outs) and all(o.kind == "raise" for o in outs) and outs[0].exc in ("TypeError", "ValueError")
        ctx.check("C15.4", ok, m, m.node, f"binary_sequence.{meth} [other: unsupported type]", "raises TypeError/ValueError", "an unsupported operand type is not rejected")


def rule_counting(ctx):
    pkg = ctx.pkg
    it = lambda name: Interp(pkg, self_class="binary_sequence").run(pkg.find_method("typing", "binary_sequence", name))
    for name, want in (("len", mk_fn("size", [S("self.data")])), ("ones", mk_fn("sum", [S("self.data")]))):
        m = pkg.find_method("typing", "binary_sequence", name)
        outs = Interp(pkg, self_class="binary_sequence", inline=False).run(m)
        rets = [o for o in outs if o.kind == "return"]
        got = rets[0].value if len(rets) == 1 else None
        # the stored data are 0/1 (C15.1): the number of non-zero entries is their sum
        alt = S("self.data.size") if name == "len" else (mk_fn("count_nonzero", [S("self.data")]) if name == "ones" else None)
        ctx.check("C15.5", got is not None and (got == want or (alt is not None and got == alt)), m, m.node, f"binary_sequence.{name}() = {got!r}", "data.size / sum(data)", f"{name}() is not {want!r}")
    m = pkg.find_method("typing", "binary_sequence", "zeros")
    rets = [o for o in Interp(pkg, self_class="binary_sequence").run(m) if o.kind == "return"]
    got = rets[0].value if len(rets) == 1 else None
    wants = [a - mk_fn(cnt, [S("self.data")]) for a in (mk_fn("size", [S("self.data")]), S("self.data.size"), mk_fn("len", [S("self.data")])) for cnt in ("sum", "count_nonzero")]
    ctx.check("C15.5", isinstance(got, Form) and got in wants, m, m.node, f"binary_sequence.zeros() = {got!r}", "len() - ones()", "zeros() is not len() - ones()")


def run(ctx):
    eff = Effects(ctx.pkg)
    from .c19 import digitwise_validation
    digitwise_validation(ctx, "C15.1")   # string input: anything but 0/1 and the separators must raise in the shared parser
    rule_init(ctx)
    rule_closure(ctx, eff)
    rule_concat(ctx)
    rule_counting(ctx)
    # "equals the element-wise comparison of signal+noise with the threshold": signal+noise is a SUM only if both are stored as numbers
    # (0/1 text and booleans kept as bool arrays add as a logical OR) - C01's storage clause under this property's id
    from .c01 import rule_numeric_storage
    rule_numeric_storage(ctx, "C15.6", ("electrical_signal",))
    ctx.require_min("C15.6", 3)
    ctx.require_min("C15.1", 4)
    ctx.require_min("C15.2", 11)
    ctx.require_min("C15.3", 5)
    ctx.require_min("C15.4", 14)
    ctx.require_min("C15.5", 3)
    ctx.require_min("C15.6", 4)
