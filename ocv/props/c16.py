"""C16 - FBG is a passive reflector: lossless coupled-mode system, H applied on the right grid, specification routes (devices.FBG)."""
from __future__ import annotations

import ast
import itertools

from ..absint import FuncV, Interp, ObjV, State
from ..forms import Const, Form, SliceV, TupleV, const_float, fpow, mk_fn, linear_in, is_real_form
from ..rules import PI, S, body_nodes, check_late_binding
from ..srcmodel import src_of

EXPLANATION = (
    "devices.FBG and its nested ode_system. C16.1: the two returned derivatives are linear forms in (R, S) with coefficient matrix "
    "j*[[sigma, kappa], [-kappa, -sigma]], sigma and kappa built only from real-kinded atoms (apodisation and chirp included) - exactly the "
    "structure that conserves |R|^2-|S|^2; with the boundary data the code uses (y0 = [ones, zeros], t_span from +0.5 to -0.5, H = S/R "
    "of the last solution column) this gives |H| <= 1 for every design and frequency. C16.2: the output is ifft(fft(x)*ifftshift(H)), the "
    "filtfilt correction multiplies H by exp(j*real) only, and retH returns that same H (grid/shift state: C02.3). C16.3: for the vdneff "
    "routes the fc and landa_D specifications give equal forms for L, dneff and the coupling terms under landa_D = c/fc, L from kL "
    "inverts the later kL recomputation, and L from N is N*landa_D/(2*neff). C16.4: FBG is interpreted (up to the solve_ivp call) for all 128 truthiness classes of (fc, landa_D, dneff, "
    "vdneff, kL, L, N) - the parameters are only tested for truth: every incomplete specification has no constructing path and ends in "
    "ValueError, every complete one constructs without arithmetic on a parameter that was not given. Not decided: agreement with "
    "tanh^2/sinh^2 closed forms and solver tolerance (numerical integration).")
EXPLANATION += (' Added after the audit wave: C16.1 a user apodisation is tested with `is not None`, never for truthiness (a callable object of length 0, np.poly1d([0.5]), is falsy and was ignored).')
EXPLANATION += (' Third audit wave: C16.6 the solve_ivp call is not left at the default step control of scipy: it carries a constant max_step below the unit span or a constant rtol below the default 1e-3. An adaptive Runge-Kutta step is sized by the local error estimate alone; at the default tolerance it grows over the flat part of a user profile and a localised feature is stepped over (Bragg reflectivity 0.260 for a profile whose closed form gives 0.375; max_step 0.02..0.25 or rtol 1e-4 all give 0.374..0.375). The clause decides that necessary condition, not the accuracy reached.')
TRUSTED = ["scipy.integrate.solve_ivp integrates the given system", "conservation of |R|^2-|S|^2 for a system of that matrix shape (mathematics)", "C02.3 typestate"]

REAL_NAMES = {"δ", "s", "k", "F", "z"}


def real_atom(a):
    if a[0] == "sym":
        return a[1] in REAL_NAMES
    if a[0] in ("c", "num"):
        return True
    if a[0] == "fn":
        return a[1] in ("call", "rcos", "exp", "abs") or a[1].endswith("apo_func")
    if a[0] == "grp":
        return is_real_form(a[1], real_atom)
    if a[0] == "phi":
        return all(isinstance(x, Form) and is_real_form(x, real_atom) for x in a[2])      # real on every path
    return False


def rule_ode(ctx):
    pkg = ctx.pkg
    fi = pkg.func("devices.FBG.<locals>.ode_system")
    # "any apodisation (built-in or user callable)": whether a profile was given is a question of identity (`is not None`), not of
    # truthiness - a callable OBJECT may be falsy (np.poly1d([0.5]) has length 0) and would be ignored: the grating computed as uniform
    # every place where the profile's TRUTH VALUE is taken: a test that is the bare name (or `not name`), an operand of and / or
    # wherever it stands (`apo_func or np.ones_like` picks the default for a falsy callable too), bool(name)
    def is_name(x):
        return isinstance(x, ast.Name) and x.id == "apo_func"
    falsy = []
    for n in ast.walk(pkg.func("devices.FBG").node):
        if isinstance(n, (ast.If, ast.IfExp, ast.While)) and (is_name(n.test) or (isinstance(n.test, ast.UnaryOp) and isinstance(n.test.op, ast.Not) and is_name(n.test.operand))):
            falsy.append(n.test)
        elif isinstance(n, ast.BoolOp) and any(is_name(v) or (isinstance(v, ast.UnaryOp) and isinstance(v.op, ast.Not) and is_name(v.operand)) for v in n.values):
            falsy.append(n)
        elif isinstance(n, ast.Call) and isinstance(n.func, ast.Name) and n.func.id == "bool" and n.args and is_name(n.args[0]):
            falsy.append(n)
    ctx.check("C16.1", not falsy, fi, falsy[0] if falsy else fi.node, "ode_system: profile present <=> `apo_func is not None`", "decided by identity",
              "the apodisation profile is tested for truthiness: a user callable that is falsy (an object with __len__() == 0, e.g. a constant np.poly1d) is ignored and the reflectivity is that of the uniform grating")
    # ... and whether something IS a user profile is a question of `callable(...)`, not of its type: np.poly1d, functools.partial, an
    # interpolator object, a ufunc are callables and none of them is a function object.  FBG is interpreted up to the solver with an
    # apodisation that is a callable OBJECT (an instance of numpy.poly1d): no path may end in an exception
    fb = pkg.func("devices.FBG")
    ass_c = dict(FBG_ASS)
    ass_c.update({k: ("truth", v) for k, v in {"fc": True, "landa_D": False, "dneff": False, "vdneff": True, "kL": True, "L": False, "N": False}.items()})
    ass_c["apodization"] = ("inst", "numpy.poly1d")
    itc = Interp(pkg, param_classes={"input": "optical_signal"}, assumptions=ass_c, no_inline=("tau_g", "dispersion", "rcos", "si", "db"))
    itc.domain_pred = lambda callee, args: True if callee in ("callable", "builtins.callable") and args and isinstance(args[0], Form) and args[0] == S("apodization") else None
    itc.stop_at_calls = {"scipy.integrate.solve_ivp"}
    outs_c = itc.run(fb)
    refused = [o for o in outs_c if o.kind == "raise"]
    reached = any(r.callee == "scipy.integrate.solve_ivp" for r in itc.calls)
    ctx.check("C16.1", reached and not refused, fb, refused[0].node if refused else fb.node, "FBG: a callable object (np.poly1d, functools.partial, an interpolator) is accepted as the profile",
              "recognised by callable(), reaches the solver on every path",
              f"with an apodisation that is a callable object a path ends in {refused[0].exc if refused else 'no call of the solver'}: the profile is recognised by its type (a function object), "
              "so np.poly1d([0.5]), functools.partial(...) or a scipy interpolator are refused although they are user callables")
    for apo in (False, True):
        it = Interp(pkg, assumptions={"apo_func": ("truth", True) if apo else None})     # no profile: the function is None (falsy)
        outs = it.run(fi)
        rets = [o for o in outs if o.kind == "return"]
        case = f"ode_system [{'apodised' if apo else 'uniform'}]"
        rv = rets[0].value if len(rets) == 1 else None
        ra_ = rv.single_atom() if isinstance(rv, Form) else None
        if ra_ and ra_[0] == "fn" and ra_[1] in ("concatenate", "hstack", "array", "asarray") and ra_[2] and isinstance(ra_[2][0], TupleV):
            rv = ra_[2][0]          # the derivative vector [dR/dz, dS/dz] joined into one array
        if not isinstance(rv, TupleV) or len(rv.items) != 2:
            ctx.unknown("C16.1", fi, fi.node, case, "does not return [dR/dz, dS/dz]")
            continue
        dR, dS = rv.items
        # R, S atoms: the two halves of the state vector
        idxs = sorted({a for f in (dR, dS) for a in f.atoms(deep=False) if a[0] == "idx"}, key=lambda a: repr(a))
        halves = [a for a in idxs if isinstance(a[2], SliceV)]
        if len(halves) != 2:
            ctx.unknown("C16.1", fi, rets[0].node, case, "state halves R, S not identified")
            continue
        Ra = next(a for a in halves if isinstance(a[2].lo, Const))   # rho[:n//2]
        Sa = next(a for a in halves if isinstance(a[2].hi, Const))   # rho[n//2:]
        lr = linear_in(dR, [Ra, Sa])
        ls = linear_in(dS, [Ra, Sa])
        if lr is None or ls is None or not lr[1].is_zero() or not ls[1].is_zero():
            ctx.violation("C16.1", fi, rets[0].node, f"{case}: derivatives", "the system is not linear homogeneous in (R, S)")
            continue
        (a11, a12), (a21, a22) = lr[0], ls[0]
        mj = Form.num(0, -1)
        sig, kap = a11 * mj, a12 * mj
        probs = []
        if not (a11 + a22).is_zero():
            probs.append(f"diagonal terms are not opposite (dR/dz has {a11!r}*R, dS/dz has {a22!r}*S)")
        if not (a12 + a21).is_zero():
            probs.append(f"coupling terms are not opposite ({a12!r}*S in dR/dz, {a21!r}*R in dS/dz): |R|^2-|S|^2 is not conserved, the grating has gain")
        if not is_real_form(sig, real_atom):
            probs.append(f"detuning term {sig!r} is not real")
        if not is_real_form(kap, real_atom):
            probs.append(f"coupling coefficient {kap!r} is not real")
        if kap.is_zero():
            probs.append("no coupling between R and S")
        if probs:
            ctx.violation("C16.1", fi, rets[0].node, f"{case}: coefficient matrix [[{a11!r}, {a12!r}], [{a21!r}, {a22!r}]]"[:500], "; ".join(probs))
        else:
            ctx.holds("C16.1", fi, rets[0].node, f"{case}: j*[[sigma, kappa], [-kappa, -sigma]], sigma = {sig!r}, kappa = {kap!r}"[:400], "lossless coupled-mode system (|R|^2-|S|^2 conserved)")
        if apo:
            # apodisation multiplies both s and k by the same profile, evaluated at the integration variable itself
            prof = [a for a in kap.atoms(deep=False) if a[0] == "fn" and a[1] == "call"]
            ctx.check("C16.1", bool(prof), fi, rets[0].node, f"{case}: apodisation profile scales kappa", "k*p(z)", "the coupling is not scaled by the apodisation profile")
            zname = fi.params[0]
            for a in prof:
                arg = a[2][1] if len(a[2]) > 1 else None
                ctx.check("C16.1", isinstance(arg, Form) and arg == S(zname), fi, rets[0].node, f"{case}: profile evaluated at {arg!r}", f"p({zname}): the user's profile along the grating",
                          f"the apodisation callable is evaluated at {arg!r}, not at the position {zname}: a profile that is not symmetric/identical under that map is integrated wrongly "
                          "(reflectivity at the Bragg frequency is no longer tanh^2(kL*integral of the profile))")
            sprof = [a for a in sig.atoms(deep=False) if a[0] == "fn" and a[1] == "call"]
            ctx.check("C16.1", set(sprof) <= set(prof) or not sprof, fi, rets[0].node, f"{case}: same profile on sigma and kappa", "one profile", "the DC and AC coupling use different apodisation profiles")
        chirp = Form({m: c for m, c in sig.terms.items() if any(a == ("sym", "F") for a, _ in m)})
        ctx.check("C16.1", chirp == -S("F") * S("z"), fi, rets[0].node, f"{case}: chirp term = {chirp!r}", "-F*z", "chirp term of the detuning is not -F*z")


FBG_ASS = {"retH": True, "input.noise": "none", "apodization": "uniform", "print_params": False, "filtfilt": True}


def run_fbg(pkg, truth, extra=None, stop_at=()):
    ass = dict(FBG_ASS)
    for k, v in truth.items():
        ass[k] = ("truth", v)
    if extra:
        ass.update(extra)
    it = Interp(pkg, param_classes={"input": "optical_signal"}, assumptions=ass, no_inline=("tau_g", "dispersion", "rcos", "si", "db"))
    it.stop_at_calls = set(stop_at)
    outs = it.run(pkg.func("devices.FBG"))
    return it, outs


def last_vals(it):
    env = {}
    for f, stmt, name, val, conds, depth in it.assign_log:
        if depth == 0:
            env.setdefault(name, []).append((val, stmt))
    return env


def _alts(v):
    a = v.single_atom() if isinstance(v, Form) else None
    if a and a[0] == "phi" and v == Form.atom(a):
        for x in a[2]:
            yield from _alts(x)
    elif a and a[0] == "fn" and a[1] == "ifexp" and len(a[2]) == 3 and v == Form.atom(a):
        yield from _alts(a[2][1])
        yield from _alts(a[2][2])
    else:
        yield v


def rule_step_control(ctx):
    """C16.6: an adaptive Runge-Kutta step is sized from the local error estimate alone; at scipy's default tolerance (rtol 1e-3)
    with no bound on the step it grows over the flat part of a user profile and a localised feature is stepped over.  The clause is
    the necessary condition only: the call is not left at those defaults - a step bound below the span, or a relative tolerance
    below the default, is given as a constant - on EVERY path to the solver and for every alternative of a conditionally chosen
    setting, with a user callable as the profile (the interpretation that exercises the profile-dependent branches)"""
    pkg = ctx.pkg
    fi = pkg.func("devices.FBG")
    ass_c = dict(FBG_ASS)
    ass_c.update({k: ("truth", v) for k, v in {"fc": True, "landa_D": False, "dneff": False, "vdneff": True, "kL": True, "L": False, "N": False}.items()})
    ass_c["apodization"] = ("inst", "numpy.poly1d")
    it = Interp(pkg, param_classes={"input": "optical_signal"}, assumptions=ass_c, no_inline=("tau_g", "dispersion", "rcos", "si", "db"))
    it.domain_pred = lambda callee, args: True if callee in ("callable", "builtins.callable") and args and isinstance(args[0], Form) and args[0] == S("apodization") else None
    it.stop_at_calls = {"scipy.integrate.solve_ivp"}
    it.run(fi)
    ivp = [r for r in it.calls if r.callee == "scipy.integrate.solve_ivp" and r.depth == 0]
    if not ivp:
        ctx.unknown("C16.6", fi, fi.node, "FBG: integrator settings", "solve_ivp call not reached with a user callable as the profile")
        return
    seen = set()
    for r in ivp:
        kw = dict(r.kwargs)
        ms, rt = kw.get("max_step"), kw.get("rtol")
        key = (repr(ms), repr(rt))
        if key in seen:
            continue
        seen.add(key)
        def tight(v, limit):
            if v is None:
                return False
            vals = [const_float(x) if isinstance(x, Form) else None for x in _alts(v)]
            return bool(vals) and all(x is not None and 0 < x < limit for x in vals)
        bounded = tight(ms, 1) or tight(rt, 1e-3)
        ctx.check("C16.6", bounded, fi, r.node, f"FBG: integrator settings max_step = {ms!r}, rtol = {rt!r}"[:200],
                  "the step is bounded below the unit span, or the tolerance is tighter than scipy's default: the integration is not left to the default step control",
                  "solve_ivp can be left at its default step control (no max_step below the unit span and no rtol below 1e-3 on some path / for some alternative of the setting): the adaptive step "
                  "grows where the profile is flat and a localised feature of a user callable is stepped over (Bragg reflectivity 0.260 instead of tanh^2(kL*integral) = 0.375 for 0.5+exp(-((z+0.125)/0.12)^2))")


def rule_boundary_and_apply(ctx):
    pkg = ctx.pkg
    fi = pkg.func("devices.FBG")
    truth = {"fc": True, "landa_D": False, "dneff": False, "vdneff": True, "kL": True, "L": False, "N": False}
    it, outs = run_fbg(pkg, truth)
    env = last_vals(it)
    ivp = [r for r in it.calls if r.callee == "scipy.integrate.solve_ivp" and r.depth == 0]
    if len(ivp) != 1:
        ctx.unknown("C16.1", fi, fi.node, "FBG: solve_ivp call", f"{len(ivp)} calls")
        return
    r = ivp[0]
    kw = dict(r.kwargs)
    names = ["fun", "t_span", "y0"]
    for i, a in enumerate(r.args):
        kw[names[i]] = a
    n = mk_fn("siglen", [S("input.signal")])
    ts = kw.get("t_span")
    ok_ts = isinstance(ts, TupleV) and len(ts.items) == 2 and ts.items[0] == Form.num(0.5) and ts.items[1] == Form.num(-0.5)
    ctx.check("C16.1", ok_ts, fi, r.node, f"FBG: t_span = {ts!r}", "integrated from z=+1/2 to z=-1/2", "the ODE is not integrated from +0.5 to -0.5 (the boundary condition S(+1/2)=0 sits at the start of the span)")
    y0 = kw.get("y0")
    a = y0.single_atom() if isinstance(y0, Form) else None
    ok_y0 = False
    if a and a[0] == "fn" and a[1] == "concatenate" and isinstance(a[2][0], TupleV) and len(a[2][0].items) == 2:
        o, z = (x.single_atom() if isinstance(x, Form) else None for x in a[2][0].items)
        ok_y0 = bool(o and z and o[1] == "ones" and z[1] == "zeros" and o[2][0] == n and z[2][0] == n)
    elif a and a[0] == "fn" and a[1] == "setitem" and len(a[2]) == 3:
        # zeros(2N) with the first N entries set to 1: the same initial state, allocated once
        b0, ix, v1 = a[2]
        ba = b0.single_atom() if isinstance(b0, Form) else None
        ok_y0 = bool(ba and ba[0] == "fn" and ba[1] == "zeros" and ba[2] and ba[2][0] == 2 * n and isinstance(ix, SliceV)
                     and (isinstance(ix.lo, Const) and ix.lo.v is None or (isinstance(ix.lo, Form) and ix.lo.is_zero())) and ix.hi == n
                     and isinstance(ix.step, Const) and ix.step.v is None and isinstance(v1, Form) and v1 == Form.num(1))
    ctx.check("C16.1", ok_y0, fi, r.node, f"FBG: y0 = {y0!r}"[:200], "R(+1/2)=1, S(+1/2)=0 for every frequency", "initial state is not [ones(N), zeros(N)]: the reflection boundary condition S(+1/2)=0 is lost")
    fun = kw.get("fun")
    ctx.check("C16.1", isinstance(fun, FuncV) and fun.fi.name == "ode_system", fi, r.node, "FBG: integrates ode_system", "the checked system is the one integrated", "solve_ivp does not integrate ode_system")
    rule_step_control(ctx)
    # detuning / coupling passed to the ODE: evaluated on the optical grid of the simulation, lambda = 2*pi*c/(w_centred + 2*pi*gv.f0)
    CC = Form.atom(("c", "scipy.constants.c"))
    wc = mk_fn("fftshift", [2 * PI * mk_fn("fftfreq", [n]) * S("gv.fs")])
    lam = 2 * PI * CC / (wc + 2 * PI * S("gv.f0"))
    getv = lambda nm: env[nm][-1][0] if nm in env else S(nm)
    lamD, Lg, dn, vdn = getv("landa_D"), getv("L"), getv("dneff"), getv("vdneff")
    neff = S("neff")
    col = lambda f: Form.atom(("idx", f, TupleV([SliceV(Const(None), Const(None), Const(None)), Const(None)])))
    want_args = {
        "detuning delta": 2 * PI * neff * (1 / lam - 1 / lamD) * Lg,
        "dc coupling s": 2 * PI * dn / lam * Lg,
        "ac coupling k": PI * vdn / lam * Lg,
    }
    args_t = kw.get("args")
    if isinstance(args_t, TupleV) and len(args_t.items) >= 3:
        for (label, want), got in zip(want_args.items(), args_t.items[:3]):
            ok = got == col(want) or got == want or (isinstance(want, Form) and want.is_zero() and isinstance(got, Form) and (got.is_zero() or got == col(Form())))
            ctx.check("C16.1", ok, fi, r.node, f"FBG: {label} passed to the ODE", "evaluated on lambda = 2*pi*c/(w_centred + 2*pi*gv.f0) with the resolved L, landa_D, dneff, vdneff",
                      f"{label} is {got!r}; expected {col(want)!r}: the grating response is computed on a wavelength grid that is not the simulation's optical band (centred at gv.f0)"[:900])
    else:
        ctx.unknown("C16.1", fi, r.node, "FBG: ODE arguments", "args=(delta, s, k, ...) not found")
    # H = S/R of the last column
    # the response variable by its role: the second element of the (output, H) pair returned under retH
    hname = "H"
    for o in outs:
        if o.kind == "return" and isinstance(getattr(o.node, "value", None), ast.Tuple) and len(o.node.value.elts) == 2 and isinstance(o.node.value.elts[1], ast.Name):
            hname = o.node.value.elts[1].id
    Hs = env.get(hname, [])
    if not Hs:
        ctx.unknown("C16.1", fi, fi.node, "FBG: H", "no assignment to the returned response variable")
        return
    H0, H0stmt = Hs[0]
    y = Form.atom(("idx", Form.atom(("attr", r.result, "y")), TupleV([SliceV(Const(None), Const(None), Const(None)), Form.num(-1)])))
    wants = []
    for n_y in (mk_fn("len", [y]), Form.atom(("attr", y, "size")), mk_fn("size", [y]), Form.atom(("idx", Form.atom(("attr", y, "shape")), Form.num(0)))):
        half = mk_fn("floordiv", [n_y, Form.num(2)])   # the column is one-dimensional: len, size and shape[0] agree
        Rf = Form.atom(("idx", y, SliceV(Const(None), half, Const(None))))
        Sf = Form.atom(("idx", y, SliceV(half, Const(None), Const(None))))
        wants.append(Sf / Rf)
    if ok_y0:
        # the state was built as [ones(N), zeros(N)] (checked above), so the column has 2N entries and N is its half
        wants.append(Form.atom(("idx", y, SliceV(n, Const(None), Const(None)))) / Form.atom(("idx", y, SliceV(Const(None), n, Const(None)))))
    ctx.check("C16.1", isinstance(H0, Form) and H0 in wants, fi, H0stmt, "FBG: H = S/R of the final solution column", "reflection coefficient rho = S/R at z=-1/2",
              "H is not S/R of sol.y[:, -1] (with R the first and S the second half): e.g. R/S exceeds 1 in magnitude")
    # filtfilt correction and application
    rets = [o for o in outs if o.kind == "return"]
    if len(rets) == 1 and isinstance(rets[0].value, TupleV) and len(rets[0].value.items) == 2:
        out, Hret = rets[0].value.items
        Hfin = Hs[-1][0]
        ratio = Hfin / H0 if isinstance(Hfin, Form) else None
        ok_c = False
        if isinstance(ratio, Form):
            ra = ratio.single_atom()
            if ra and ra[0] == "fn" and ra[1] == "exp":
                E = ra[2][0] * Form.num(0, -1)
                ok_c = all(c[1] == 0 for c in E.terms.values())
        ctx.check("C16.2", ok_c, fi, Hs[-1][1], "FBG: filtfilt correction H*exp(j*real)", "pure phase: |H| unchanged", "the group-delay correction is not a pure phase factor exp(j*real): it changes |H|")
        ctx.check("C16.2", Hret == Hfin, fi, rets[0].node, "FBG: retH returns the applied H", "same object", "the response returned by retH is not the filter applied to the field")
        sig = out.fields.get("signal") if isinstance(out, ObjV) else None
        want = mk_fn("ifft", [mk_fn("fft", [S("input.signal")]) * mk_fn("ifftshift", [Hfin])])
        ctx.check("C16.2", isinstance(sig, Form) and sig == want, fi, rets[0].node, "FBG: output = ifft(fft(x)*ifftshift(H))", "input filtered by H on the last axis",
                  "the output field is not ifft(fft(input.signal)*ifftshift(H))")
    else:
        ctx.unknown("C16.2", fi, fi.node, "FBG retH return", "not a pair")
    it2 = Interp(pkg, assumptions={"input": ("notinst", "optical_signal")})
    o2 = it2.run(fi)
    pass  # (clause removed: the property statement names no exception for this case - it was read off the docstring, i.e. the check demanded more than the property)


def rule_routes(ctx):
    pkg = ctx.pkg
    fi = pkg.func("devices.FBG")
    CC = Form.atom(("c", "scipy.constants.c"))
    res = {}
    for centre in ("fc", "landa_D"):
        for length in ("kL", "L", "N"):
            truth = {k: False for k in ("fc", "landa_D", "dneff", "vdneff", "kL", "L", "N")}
            truth[centre] = True
            truth["vdneff"] = True
            truth[length] = True
            it, outs = run_fbg(pkg, truth)
            env = last_vals(it)
            get = lambda nm: env[nm][-1][0] if nm in env else S(nm)
            vals = {nm: get(nm) for nm in ("L", "landa_D", "dneff", "vdneff", "kL")}
            if centre == "landa_D":
                vals = {k: (v.subst(lambda a: CC / S("fc") if a == ("sym", "landa_D") else None) if isinstance(v, Form) else v) for k, v in vals.items()}
            res[(centre, length)] = (vals, env)
    for length in ("kL", "L", "N"):
        a, b = res[("fc", length)][0], res[("landa_D", length)][0]
        for nm in ("L", "dneff", "landa_D", "kL"):
            stmt = res[("landa_D", length)][1].get(nm, [(None, None)])[-1][1] or fi.node
            ctx.check("C16.3", a[nm] == b[nm], fi, stmt, f"FBG vdneff routes [{length} given]: {nm} via fc vs via landa_D", "equal forms under landa_D = c/fc",
                      f"{nm} = {a[nm]!r} through fc but {b[nm]!r} through landa_D: the two ways of giving the centre describe different gratings")
        ctx.check("C16.3", isinstance(a["dneff"], Form) and a["dneff"].is_zero(), fi, fi.node, f"FBG vdneff routes [{length} given]: dneff", "0 (no DC index change)", "the vdneff routes do not set dneff = 0")
    v, env = res[("fc", "kL")]
    ctx.check("C16.3", v["kL"] == S("kL"), fi, env["kL"][-1][1] if "kL" in env else fi.node, "FBG: kL -> L -> kL recomputation", "identity",
              f"L derived from kL and the later kL = pi*vdneff*L/landa_D do not invert each other (final kL = {v['kL']!r})")
    v, env = res[("fc", "N")]
    want = S("N") * (CC / S("fc")) / (2 * S("neff"))
    ctx.check("C16.3", v["L"] == want, fi, env["L"][-1][1] if "L" in env else fi.node, "FBG: L from N", "N*landa_D/(2*neff)", f"L from N is {v['L']!r}, expected {want!r}")


def rule_spec_tree(ctx):
    """the parameter resolution is interpreted for every truthiness combination of the seven specification parameters (they are
    only tested for truth, so 2^7 classes are exhaustive): incomplete -> ValueError on every path, complete -> constructs, and
    no arithmetic touches a parameter that was not given"""
    pkg = ctx.pkg
    fi = pkg.func("devices.FBG")
    names = ("fc", "landa_D", "dneff", "vdneff", "kL", "L", "N")
    n_inc = n_ok = 0
    for combo in itertools.product((False, True), repeat=7):
        given = dict(zip(names, combo))
        it, outs = run_fbg(pkg, given, stop_at=("scipy.integrate.solve_ivp",))   # the resolution precedes the integration
        rets = [o for o in outs if o.kind == "return"]
        if given["fc"]:
            complete = (given["dneff"] or given["vdneff"]) and (given["L"] or given["kL"] or given["N"])
        elif given["landa_D"]:
            complete = ((given["dneff"] or given["vdneff"]) and (given["L"] or given["kL"] or given["N"])) or (given["kL"] and (given["L"] or given["N"]))
        else:
            complete = False
        label = ", ".join(k for k in names if given[k]) or "nothing"
        absent_use = [(n_, o_) for (f_, n_, o_, d_) in it.falsy_arith if d_ <= 1 and isinstance(o_, Form) and o_.sym_name() in names and not given[o_.sym_name()]]
        if not complete:
            n_inc += 1
            if rets:
                why = "an incomplete specification (no centre, no index modulation or no length) is accepted instead of raising ValueError"
                if absent_use:
                    why = f"incomplete specification is not rejected: `{src_of(absent_use[0][0])}` uses an unspecified parameter"
                ctx.violation("C16.4", fi, absent_use[0][0] if absent_use else rets[0].node, f"FBG specification given: {label}", why)
            elif not outs or outs[-1].exc != "ValueError":
                ctx.violation("C16.4", fi, outs[-1].node if outs else fi.node, f"FBG specification given: {label}", f"raises {outs[-1].exc if outs else None}, documented ValueError")
        else:
            n_ok += 1
            if not rets:
                ctx.violation("C16.4", fi, outs[-1].node if outs else fi.node, f"FBG specification given: {label}", f"a complete specification is rejected ({outs[-1].exc if outs else None})")
            elif absent_use:
                ctx.violation("C16.4", fi, absent_use[0][0], f"FBG specification given: {label}", f"a complete specification is rejected (`{src_of(absent_use[0][0])}` uses an unspecified parameter)")
    ctx.holds("C16.4", fi, fi.node, f"FBG parameter resolution: 128 truthiness combinations ({n_inc} incomplete, {n_ok} complete)", "incomplete -> ValueError, complete -> all grating parameters defined")


def run(ctx):
    rule_ode(ctx)
    rule_boundary_and_apply(ctx)
    rule_routes(ctx)
    rule_spec_tree(ctx)
    check_late_binding(ctx, "C16.5", ["devices.FBG"])
    ctx.require_min("C16.1", 8)
    ctx.require_min("C16.2", 3)
    ctx.require_min("C16.3", 10)
    ctx.require_min("C16.4", 1)
