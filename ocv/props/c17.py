"""C17 - the eye estimator is equivariant under a change of units (devices.GET_EYE, utils.shortest_int)."""
from __future__ import annotations

import ast
from fractions import Fraction

from ..absint import ClassRef, FuncV, Interp, ObjV, VecV
from ..forms import Const, DictV, Form, SliceV, TupleV, atom_children, const_float, mk_fn, vkey
from ..rules import S, check_late_binding
from ..srcmodel import src_of

EXPLANATION = (
    "Affine-unit type discipline over the value forms of devices.GET_EYE (both resampling modes, noise present/absent) and of "
    "utils.shortest_int. Every quantity q gets a type (degree d, shift s): under waveform -> alpha*waveform + beta it transforms as "
    "alpha^d*q + s*beta (samples and levels (1,1), level differences and sigmas (1,0), slot-normalised times and indices (0,0)). Rules: "
    "sums and comparisons need equal degrees (and comparisons equal shifts); a non-zero literal is (0,0), so it may not be added to or "
    "compared with a scaled quantity; data handed to a distance-based routine (KMeans.fit, gaussian_kde, argmin|a-b|, np.vstack/array "
    "rows) must be of a single type; linspace end points must agree. The returned fields must have the types the statement requires "
    "(mu0, mu1, threshold, y_left, y_right: (1,1); s0, s1: (1,0); t_left, t_right, t_opt, t_dist, i: (0,0)). A clash means the estimate "
    "changes when the waveform is expressed in another unit. sklearn/scipy routines are summarised as type-preserving (relative "
    "tolerances). C17.3: the record is shortened only at its end or by whole slots (start offsets multiples of sps), so the folded data "
    "stay aligned with the independently built slot time axis. C17.4: the populations handed to shortest_int are selected by value, not cut from the sorted record at a position that depends on the record length alone (a fixed rank assumes equal numbers of ones and zeros). C17.5: the folded record holds exactly the slots the time axis is built for: resampling keeps the slot rate (num*sps == len*sps_resamp, len being the symbolic sample count of the record) and without resampling the record has sps samples per slot of the axis. C17.6: the remainder cut from the record is taken modulo an even multiple of sps (the eye is folded into two-slot traces). Zero-padding FIR/polyphase routines count as mixing the data with a literal 0. Decided: these clauses; not decided: accuracy of levels, sigmas, crossings, sampling index (data-dependent numerics).")
EXPLANATION += (' Added after the audit wave: C17.7 t_opt is searched midway between the two crossing times; C17.8 the boundary between the ON and OFF populations is computed from the level estimates and is not an element of the record; C17.9 the populations are drawn from every slot of the folded trace (no single sub-slot window on an axis that folds two slots).')
EXPLANATION += (' Second audit wave: C17.10 the instants handed to the crossing clustering carry a reduction of the time axis modulo the slot.')
EXPLANATION += (' Third audit wave: C17.12 mu0 < threshold < mu1 structurally: every alternative of the stored threshold is an element of linspace(mu0, mu1, n) taken under 0 < index < n-1 (grids nested between interior points and grids cut with [1:-1] are followed), or the midpoint of the levels, or None. C17.6 now also accepts a record cut to whole slots and continued by its first slot when the slot count is odd (the test of the parity is read from the recorded branch condition).')
EXPLANATION += (' Fourth audit wave: C17.13 the first split of the samples into an upper and a lower population (the boundary handed to shortest_int) comes from two clusters STARTED at the minimum and the maximum of the record (init= built from min and max), or is a mid-range value - never the global least-squares 2-means partition with random starts, which halves the noise cloud of one level when the other holds a handful of samples (3 ones in 4096 slots at 5 % noise: mu1 = 0.04 for a level at 1).')
EXPLANATION += (' Wave 14: C17.14 a guard that ends GET_EYE early (raise / return) tests the waveform only with unit-free conditions: no np.allclose / np.isclose on the samples (rtol*|b| + atol has a unit), no comparison of samples with a non-zero numeric literal.')
EXPLANATION += (' Wave 15: C17.15 every value handed to find_nearest is built in double precision (no dtype= / astype that follows the record), unless find_nearest tells every numpy float as a scalar: its exact-type test isinstance(data, (float, np.float64)) sends a float32 scalar down the array branch.')
TRUSTED = ["sklearn KMeans / scipy gaussian_kde / resample are equivariant under a common affine map of homogeneous data", "numpy semantics of mean/std/unique/roll"]

F0, F1 = Fraction(0), Fraction(1)


class T:
    __slots__ = ("d", "s")

    def __init__(self, d, s):
        self.d, self.s = Fraction(d), Fraction(s)

    def __eq__(self, o):
        return isinstance(o, T) and self.d == o.d and self.s == o.s

    def __hash__(self):
        return hash((self.d, self.s))

    def __repr__(self):
        names = {(1, 1): "level (scales and shifts with the waveform)", (1, 0): "amplitude difference (scales with the waveform)", (0, 0): "dimensionless (time/index/number)"}
        return names.get((self.d, self.s), f"(degree {self.d}, shift {self.s})")


class ColT:
    """2-D array whose columns carry different unit types (cluster centres in (t, y) coordinates)"""

    def __init__(self, default, cols):
        self.default, self.cols = default, dict(cols)

    def __repr__(self):
        return f"columns {self.cols} else {self.default!r}"


ANY = "any"          # polymorphic: nan, empty
ZERO = "zero"        # the literal 0: any degree, but it does not shift with the waveform
BAD = "nonaffine"    # not an affine-equivariant quantity (product of levels, ratio of levels ...)
UNK = "unknown"
NUM = T(0, 0)
LEVEL_T = T(1, 1)
DIFF = T(1, 0)


class Typer:
    def __init__(self, sample_types, fit_types=None):
        self.sym = sample_types
        self.memo = {}
        self.errors = []     # (description, why)
        self.unknowns = []
        self.fit_type = fit_types

    def err(self, what, why):
        if (what, why) not in self.errors:
            self.errors.append((what, why))

    def join(self, ts, what):
        cols = [t for t in ts if isinstance(t, ColT)]
        if cols:
            return cols[0]
        real = [t for t in ts if isinstance(t, T)]
        if any(t == ZERO for t in ts):
            sh = [t for t in real if t.s != 0]
            if sh:
                self.err(what, f"combines the literal 0 with a {sh[0]!r} quantity: the result does not follow an offset of the waveform")
                return ANY
            if not real:
                return ZERO
        if any(t == BAD for t in ts):
            return BAD
        if any(t == UNK for t in ts) and not real:
            return UNK
        if not real:
            return ANY
        first = real[0]
        for t in real[1:]:
            if t != first:
                self.err(what, f"combines a {first!r} quantity with a {t!r} quantity")
                return ANY
        return first

    def ty(self, v):
        if v is None:
            return ANY
        if isinstance(v, Const):
            return ANY if v.v is None else NUM
        if isinstance(v, (SliceV, ClassRef, FuncV)):
            return NUM
        if isinstance(v, (TupleV, VecV)):
            return self.join([self.ty(i) for i in v.items], f"sequence {short(v)}")
        if isinstance(v, DictV):
            return UNK
        if isinstance(v, ObjV):
            return self.ty(v.fields.get("signal"))
        if not isinstance(v, Form):
            return UNK
        if v.is_zero():
            return ZERO
        k = v.key()
        if k in self.memo:
            return self.memo[k]
        self.memo[k] = UNK
        t = self._form(v)
        self.memo[k] = t
        return t

    def _form(self, f: Form):
        if f.is_zero():
            return ZERO
        sa = f.single_atom()
        if sa is not None:
            t0 = self.atom(sa)
            if isinstance(t0, ColT):
                return t0
        # each monomial: degree, at most one shifted (level-typed) factor, and the remaining factors ("rest")
        groups = {}      # rest key -> [degree, shift sum, non-constant rest?]
        flags = set()
        for m, c in f.terms.items():
            if not m:
                groups.setdefault(("#const",), [F0, F0, False])
                continue
            d = F0
            shifted = []
            rest = []
            bad = unk = False
            n_any = 0
            for a, e in m:
                t = self.atom(a)
                if isinstance(t, ColT):
                    t = t.default
                if t == BAD:
                    bad = True
                elif t == UNK:
                    unk = True
                elif t == ANY or t == ZERO:
                    n_any += 1
                else:
                    d += t.d * e
                    if t.s != 0:
                        shifted.append((a, e, t))
                    else:
                        rest.append((a, e, t))
            if bad:
                flags.add(BAD)
                continue
            if unk:
                flags.add(UNK)
                continue
            if n_any:
                flags.add(ANY)
                continue
            if len(shifted) > 1 or (shifted and shifted[0][1] != 1):
                flags.add(BAD)       # product / power of levels
                continue
            nonconst = any(not (t == NUM) for _, _, t in rest)
            key = tuple(sorted((repr(a), e) for a, e, _ in rest))
            g = groups.setdefault(key, [d, F0, nonconst])
            g[0] = d
            if shifted:
                cs = c[0] if c[1] == 0 else F1
                g[1] += shifted[0][2].s * cs
        if BAD in flags:
            return BAD
        degs = set()
        shift = F0
        has_literal = ("#const",) in groups
        for key, (d, s, nonconst) in groups.items():
            degs.add(d)
            if nonconst and s != 0:
                return BAD          # a level (not a difference of levels) scaled by a non-constant factor
            if not nonconst:
                shift += s
        if len(degs) > 1:
            if has_literal:
                self.err(f"expression {short(f)}", "a non-zero literal constant is added to a quantity that scales with the waveform: the result depends on the unit of the input")
            else:
                self.err(f"expression {short(f)}", f"sum of terms of degrees {sorted(degs)}")
            return ANY
        if UNK in flags:
            return UNK
        if not degs:
            return ANY
        return T(next(iter(degs)), shift)

    def atom(self, a):
        k = a[0]
        if k in ("num",):
            return NUM
        if k == "c":
            return ANY if a[1] in ("nan", "inf", "-inf") else NUM
        if k == "sym":
            if a[1] in self.sym:
                return self.sym[a[1]]
            return NUM
        if k == "grp":
            return self.ty(a[1])
        if k == "loop":
            return UNK
        if k == "opaque":
            return ANY if "unbound" in str(a[1]) else UNK
        if k == "phi":
            return self.join([self.ty(x) for x in a[2]], f"value of {a[1].split('@')[0]} (differs by path)")
        if k == "idx":
            self.ty(a[2])
            bt = self.ty(a[1])
            if isinstance(bt, ColT):
                ix = a[2]
                if isinstance(ix, TupleV) and len(ix.items) == 2 and isinstance(ix.items[1], Form) and ix.items[1].rational() is not None:
                    return bt.cols.get(int(ix.items[1].rational()), bt.default)
                return bt
            return bt
        if k == "attr":
            if a[2] in ("shape", "size", "ndim", "dtype"):
                return NUM
            if a[2] == "cluster_centers_":
                base = a[1]
                ba = base.single_atom() if isinstance(base, Form) else None
                if ba and ba[0] == "meth" and ba[2] == "fit":
                    return self.ty(ba[3][0]) if ba[3] else UNK
                if ba and ba[0] == "fn" and ba[1] == "fitted" and isinstance(self.fit_type, dict):
                    k = int(ba[2][1].rational())
                    return self.fit_type.get(k, UNK)   # centres live in the space of the data of that fit
                return UNK
            return self.ty(a[1])
        if k == "meth":
            base, name, args = a[1], a[2], a[3]
            if name == "fit":
                return self.ty(args[0]) if args else UNK
            if name == "evaluate":
                bt = self.ty(base)
                xt = self.ty(args[0]) if args else ANY
                self.join([bt, xt], f"gaussian_kde(...).evaluate({short(args[0]) if args else ''})")
                return NUM
            if name in ("copy", "astype", "reshape", "ravel"):
                return self.ty(base)
            return UNK
        if k == "fn":
            return self.fn(a)
        return UNK

    SAME = {"real", "roll", "scipy.signal.resample", "unique", "reshape", "ravel", "copy", "sort", "mean", "median", "min", "max", "sum_keep", "transpose",
            "squeeze", "abs_keep", "nanmean", "nanmedian", "nanmin", "nanmax", "cumsum", "flip", "repeat", "tile", "elem", "star", "array", "asarray", "neg", "float", "numpy.float64", "tolist", "list"}
    NUMERIC = {"argmin", "argmax", "where", "len", "size", "siglen", "int", "floordiv", "mod", "isnan", "not", "invert", "band", "bor", "and", "or", "arange", "ones",
               "ones_like", "round_idx", "toc", "range", "n_pol_of", "log10", "log", "exp"}
    CMP = {"lt", "gt", "le", "ge", "eq", "ne"}

    def fn(self, a):
        name, args, kw = a[1], a[2], dict(a[3])
        if name in self.CMP:
            l, r = self.ty(args[0]), self.ty(args[1])
            if l == BAD or r == BAD:
                self.err(f"comparison {short(Form.atom(a))}", "an operand is not an affine-equivariant quantity (product/ratio involving an absolute level): the outcome depends on the offset or unit of the input")
            if (l == ZERO and isinstance(r, T) and r.s != 0) or (r == ZERO and isinstance(l, T) and l.s != 0):
                self.err(f"comparison {short(Form.atom(a))}", "a level (which shifts with the waveform) is compared with the literal 0: the outcome depends on the offset of the input")
            if isinstance(l, T) and isinstance(r, T) and l != r:
                lit = isinstance(args[1], Form) and args[1].const_value() is not None or isinstance(args[0], Form) and args[0].const_value() is not None
                self.err(f"comparison {short(Form.atom(a))}", ("a quantity that scales with the waveform is compared with a non-zero literal: the outcome depends on the unit of the input"
                                                               if lit else f"compares a {l!r} quantity with a {r!r} quantity"))
            return NUM
        if name == "where" and len(args) == 3:
            self.ty(args[0])          # where(mask, a, b): a where the mask holds, b elsewhere
            return self.join([self.ty(args[1]), self.ty(args[2])], f"selection {short(Form.atom(a))}")
        if name in self.NUMERIC:
            for x in args:
                self.ty(x)
            for x in kw.values():
                self.ty(x)
            return NUM
        if name == "abs":
            t = self.ty(args[0])
            if isinstance(t, T) and t.s != 0:
                self.err(f"distance {short(Form.atom(a))}", "|a - b| is taken between quantities whose offsets do not cancel (a level against a non-level): the nearest-value search depends on the offset of the waveform")
                return BAD
            return t
        if name in ("std", "nanstd"):
            t = self.ty(args[0])
            return T(t.d, 0) if isinstance(t, T) else t
        if name in ("var", "nanvar"):
            t = self.ty(args[0])
            return T(2 * t.d, 0) if isinstance(t, T) else t
        if name.split(".")[-1] in ("round", "around", "rint", "floor", "ceil", "trunc", "fix") and args:
            t = self.ty(args[0])
            if isinstance(t, T) and t.d != 0:
                self.err(f"{name.split('.')[-1]}({short(args[0], 40)}, ...)", "a quantity that scales with the waveform is rounded to an absolute grid (10^-decimals of whatever unit the input is in): "
                                                                            "for a waveform expressed in a small unit the levels collapse onto a few grid points and the estimates change with the unit")
                return BAD
            return t
        if name.split(".")[-1] in ("resample_poly", "upfirdn", "decimate", "lfilter", "convolve", "fftconvolve") and args:
            # FIR / polyphase filtering treats everything outside the record as 0 V unless another padding is requested: for data
            # that shift with the waveform the edge transient (and everything estimated from samples it reaches) depends on the offset
            t = self.ty(args[0] if name.split(".")[-1] != "upfirdn" else (args[1] if len(args) > 1 else args[0]))
            pad = kw.get("padtype")
            zero_pad = name.split(".")[-1] != "resample_poly" or pad is None or (isinstance(pad, Const) and pad.v == "constant" and "cval" not in kw)
            if isinstance(t, T) and t.s != 0 and zero_pad:
                self.err(f"{name.split('.')[-1]}({short(args[0], 40)}, ...)", "the record is extended with the literal 0 V at its ends (zero padding): a level, which shifts with the waveform, is mixed with 0 - "
                                                                            "the edge transient grows with the offset of the input and the estimates are not offset-equivariant")
                return BAD
            return t
        if name in self.SAME or name in ("sum",):
            if "where" in kw:
                self.ty(kw["where"])
            return self.ty(args[0]) if args else UNK
        if name == "setitem":
            b = self.ty(args[0])
            self.ty(args[1])
            v = self.ty(args[2])
            ix = args[1]
            if isinstance(ix, TupleV) and len(ix.items) == 2 and isinstance(ix.items[0], SliceV) and isinstance(ix.items[1], Form) and ix.items[1].rational() is not None:
                base_t = b if not isinstance(b, ColT) else b.default
                cols = dict(b.cols) if isinstance(b, ColT) else {}
                cols[int(ix.items[1].rational())] = v
                return ColT(base_t, cols)      # a whole column re-expressed in other units
            if isinstance(b, ColT):
                return b
            return self.join([b, v], f"store into {short(args[0])}")
        if name in ("vstack", "hstack", "stack", "concatenate", "column_stack"):
            items = args[0].items if isinstance(args[0], (TupleV, VecV)) else list(args)
            ts = [self.ty(i) for i in items]
            if any(t == BAD for t in ts):
                self.err(f"np.{name}({short(args[0])})", "a stacked row is not an affine-equivariant quantity (e.g. a level difference divided by an absolute level instead of by a level "
                                                          "difference): distances computed on the result change when the waveform is offset")
                return ANY
            real = [t for t in ts if isinstance(t, T)]
            if len(set(real)) > 1:
                self.err(f"np.{name}({short(args[0])})", f"stacks a {real[0]!r} row with a {next(t for t in real if t != real[0])!r} row: any distance computed on the result (clustering) "
                                                          "weighs the two axes differently when the waveform is expressed in another unit")
                return ANY
            return self.join(ts, f"np.{name}")
        if name == "linspace":
            return self.join([self.ty(args[0]), self.ty(args[1])], f"linspace({short(args[0])}, {short(args[1])}, ...)")
        if name == "kron":
            l, r = self.ty(args[0]), self.ty(args[1])
            if isinstance(l, T) and isinstance(r, T):
                return T(l.d + r.d, 0) if l.s == 0 and r.s == 0 else BAD
            return self.join([l, r], "kron")
        if name == "ifexp":
            self.ty(args[0])
            return self.join([self.ty(args[1]), self.ty(args[2])], f"conditional {short(Form.atom(a))}")
        if name == "zeros" or name == "zeros_like" or name == "empty":
            return ANY
        if name in ("shortest_int", "utils.shortest_int"):
            return self.ty(args[0])
        if name == "scipy.stats.gaussian_kde":
            return self.ty(args[0])
        if name == "sklearn.cluster.KMeans":
            return UNK
        if name == "pow":
            return BAD
        if name == "div":
            return BAD
        if name == "repeat_rows":
            return self.ty(args[0])
        if name == "numpy.repeat" or name == "repeat":
            return self.ty(args[0])
        return UNK


def short(v, n=110):
    s = repr(v)
    return s if len(s) <= n else s[:n] + "..."


FIELD_TYPES = {"mu0": LEVEL_T, "mu1": LEVEL_T, "threshold": LEVEL_T, "y_left": LEVEL_T, "y_right": LEVEL_T, "s0": DIFF, "s1": DIFF,
               "t_left": NUM, "t_right": NUM, "t_opt": NUM, "t_dist": NUM, "i": NUM}


_SIZE_FNS = {"siglen", "len", "size", "shape", "numpy.size", "numpy.shape"}
_SORT_FNS = {"sort", "sorted", "numpy.sort", "partition", "numpy.partition"}
_ARGSORT_FNS = {"argsort", "numpy.argsort", "argpartition", "numpy.argpartition"}


def _value_dependent(v):
    """does the value depend on the sample VALUES (occurrences under len/size do not count)?"""
    if isinstance(v, SliceV):
        return any(_value_dependent(x) for x in (v.lo, v.hi, v.step))
    if isinstance(v, TupleV):
        return any(_value_dependent(x) for x in v.items)
    if not isinstance(v, Form):
        return False
    for m in v.terms:
        for a, _e in m:
            if a[0] == "sym" and a[1] in ("input.signal", "input.noise", "input"):
                return True
            if a[0] == "fn" and a[1] in _SIZE_FNS:
                continue
            if a[0] == "attr" and a[2] in ("size", "shape", "ndim"):
                continue
            if a[0] == "meth" and a[2] in ("__len__",):
                continue
            if a[0] in ("opaque", "loop"):
                return True
            if any(_value_dependent(c) for c in atom_children(a)):
                return True
    return False


def _head(v):
    a = v.single_atom() if isinstance(v, Form) else None
    while a is not None and a[0] == "fn" and a[1] in ("real", "asarray", "numpy.asarray", "array", "ravel", "flatten") and a[2]:
        v = a[2][0]
        a = v.single_atom() if isinstance(v, Form) else None
    return a


_SAME_LEN_FNS = {"roll", "real", "imag", "abs", "conj", "astype", "copy", "array", "asarray", "flip", "neg", "sort", "numpy.roll", "numpy.real"}


def _noise_only(at):
    names = {x[1] for x in Form.atom(at).atoms() if x[0] in ("sym", "phi") and isinstance(x[1], str)}
    names = {n for n in names if "signal" in n or "noise" in n}
    return bool(names) and all("noise" in n for n in names)


def _merge_branches(forms, limit=2):
    """the given forms once per combination of alternatives of the two-way merges (phi atoms of plain local variables created at
    the same program point) they contain: [(form, ...)] - a single tuple when there is no such merge"""
    def tags(v, out, depth=0):
        if isinstance(v, Form) and depth < 12:
            for a in v.atoms():
                if a[0] == "phi" and len(a[2]) == 2 and "@" in a[1] and not any(k in a[1] for k in ("signal", "noise", "[", "ret:")):
                    out.add(a[1].rsplit("@", 1)[1].rstrip(">"))
        elif isinstance(v, (TupleV, VecV)):
            for x in v.items:
                tags(x, out, depth + 1)
    lines = set()
    for f in forms:
        tags(f, lines)
    lines = sorted(lines)[:limit]
    combos = [()]
    for ln in lines:
        combos = [c + ((ln, i),) for c in combos for i in (0, 1)]
    out = []
    for combo in combos:
        pick = dict(combo)

        def fn(a):
            if a[0] == "phi" and len(a[2]) == 2 and "@" in a[1]:
                ln = a[1].rsplit("@", 1)[1].rstrip(">")
                if ln in pick and not any(k in a[1] for k in ("signal", "noise", "[", "ret:")):
                    alt = a[2][pick[ln]]
                    return alt.subst(fn) if isinstance(alt, Form) else None
            return None
        out.append(tuple(f.subst(fn) if isinstance(f, Form) else f for f in forms))
    return out


def _flen(v):
    """symbolic sample count of an array-valued form (None if not determined).  A stop bound of a slice is taken as the length
    (the code under analysis builds it as a min with the available length)."""
    if not isinstance(v, Form):
        return None
    a = v.single_atom()
    if a is None:
        lens = []
        for mono in v.terms:
            for at, _e in mono:
                if _noise_only(at):
                    continue          # signal and noise of one object have the same length (constructor invariant, C01.4)
                l = _flen(Form.atom(at))
                if l is not None:
                    lens.append(l)
        if lens and all(l == lens[0] for l in lens):
            return lens[0]
        return None
    k = a[0]
    if k == "sym":
        return mk_fn("siglen", [v]) if a[1] in ("input.signal", "input.noise") else None
    if k == "phi":
        alts = [x for x in a[2] if not (isinstance(x, Const) and x.v is None)]
        ls = [_flen(x) for x in alts]
        if ls and all(l is not None and l == ls[0] for l in ls):
            return ls[0]
        if "signal" in a[1] or "noise" in a[1]:
            return mk_fn("siglen", [v])
        return None
    if k == "fn":
        nm = a[1].split(".")[-1]
        if nm == "resample" and len(a[2]) >= 2:
            return a[2][1] if isinstance(a[2][1], Form) else None
        if nm == "ifexp" and len(a[2]) == 3:
            l1, l2 = _flen(a[2][1]), _flen(a[2][2])
            return l1 if l1 is not None and l1 == l2 else None
        if (nm in _SAME_LEN_FNS or a[1] in _SAME_LEN_FNS) and a[2]:
            return _flen(a[2][0])
        if nm == "concatenate" and len(a[2]) == 1 and isinstance(a[2][0], (TupleV, VecV)) and not a[3]:
            parts = [_flen(x) for x in a[2][0].items]          # one-dimensional pieces laid end to end
            if parts and all(p_ is not None for p_ in parts):
                tot = parts[0]
                for p_ in parts[1:]:
                    tot = tot + p_
                return tot
        return None
    if k == "idx" and isinstance(a[2], SliceV):
        sl = a[2]
        none = lambda x: isinstance(x, Const) and x.v is None
        if not none(sl.step):
            return None
        base = _flen(a[1])
        if none(sl.lo) and none(sl.hi):
            return base
        if none(sl.lo) and isinstance(sl.hi, Form):
            neg = sl.hi.terms and all(c[0] < 0 and c[1] == 0 for c in sl.hi.terms.values())
            if neg:
                return None if base is None else base + sl.hi
            return sl.hi
        if none(sl.hi) and isinstance(sl.lo, Form) and base is not None:
            return base - sl.lo
    return None


def _slots_of_axis(t):
    """NL for a time axis built as kron(ones(NL//2), <two-slot ramp>) or tile(<ramp>, NL//2)"""
    a = t.single_atom() if isinstance(t, Form) else None
    if a is None or a[0] != "fn":
        return None
    k = None
    nm = a[1].split(".")[-1]
    if nm == "kron" and len(a[2]) == 2:
        o = a[2][0].single_atom() if isinstance(a[2][0], Form) else None
        if o is not None and o[0] == "fn" and o[1].split(".")[-1] == "ones" and o[2]:
            k = o[2][0]
    elif nm == "tile" and len(a[2]) == 2:
        k = a[2][1]
    ka = k.single_atom() if isinstance(k, Form) else None
    if ka is not None and ka[0] == "fn" and ka[1] == "floordiv" and len(ka[2]) == 2 and isinstance(ka[2][1], Form) and ka[2][1].rational() == 2:
        return ka[2][0]
    return None


def _rank_split(data):
    """repr of the cut if `data` is sort(X)[p:q] / X[argsort(X)[p:q]] with p, q independent of the sample values, else None"""
    a = _head(data)
    if a is None or a[0] != "idx":
        return None
    base, index = a[1], a[2]
    hb = _head(base)
    if isinstance(index, SliceV):
        sorted_base = hb is not None and ((hb[0] == "fn" and hb[1] in _SORT_FNS) or (hb[0] == "meth" and hb[2] in ("sort",)))
        bounded = not all(isinstance(x, Const) and x.v is None for x in (index.lo, index.hi))
        if sorted_base and bounded and not _value_dependent(index):
            return short(index, 80)
        return None
    hi_ = _head(index)
    if hi_ is not None and hi_[0] == "idx" and isinstance(hi_[2], SliceV):
        hbb = _head(hi_[1])
        if hbb is not None and hbb[0] == "fn" and hbb[1] in _ARGSORT_FNS and not _value_dependent(hi_[2]) \
                and not all(isinstance(x, Const) and x.v is None for x in (hi_[2].lo, hi_[2].hi)):
            return short(hi_[2], 80)
    return None


def _nearest_operands(v, depth=0):
    """operands m of the nearest-value searches `grid[argmin(|grid - m|)]` a field value consists of (through path merges)"""
    out = []
    if not isinstance(v, Form) or depth > 4:
        return out
    a = v.single_atom()
    if a is None:
        return out
    if a[0] == "phi":
        for x in a[2]:
            out.extend(_nearest_operands(x, depth + 1))
        return out
    if a[0] == "idx" and isinstance(a[1], Form) and isinstance(a[2], Form):
        ia = a[2].single_atom()
        if ia and ia[0] == "fn" and ia[1] == "argmin" and len(ia[2]) == 1 and isinstance(ia[2][0], Form):
            ab = ia[2][0].single_atom()
            if ab and ab[0] == "fn" and ab[1] == "abs" and isinstance(ab[2][0], Form):
                E, G = ab[2][0], a[1]
                for m in (G - E, G + E):
                    if not any(at in m.atoms(deep=False) for at in G.atoms(deep=False)):
                        ma = m.single_atom()
                        if ma and ma[0] == "idx" and isinstance(ma[2], TupleV) and ma[2].items and all(isinstance(i_, Const) and i_.v in (None, Ellipsis) for i_ in ma[2].items) \
                                and isinstance(ma[1], Form):
                            m = ma[1]          # m[..., None]: axes added for broadcasting, same values
                        out.append(m)
    return out


def rule_midway(ctx, fi, eye, node, case):
    """C17.7: the optimum instant is midway between the two crossings - the value searched on the time grid for t_opt is the mean
    of the two crossing times searched for t_left and t_right (written as their half sum, or as the mean over the time column of
    the two fitted crossing centres), not an average over the crossing SAMPLES (which is pulled towards the more populated crossing)"""
    mo, ml, mr = (_nearest_operands(eye.fields.get(k)) for k in ("t_opt", "t_left", "t_right"))
    if len(mo) != 1 or len(ml) != 1 or len(mr) != 1:
        ctx.unknown("C17.7", fi, node, f"GET_EYE [{case}]: t_opt midway between the crossings", "nearest-grid searches of t_opt / t_left / t_right not identified")
        return
    mo, ml, mr = mo[0], ml[0], mr[0]
    ok = mo == (ml + mr) / 2
    if not ok:
        la = ml.single_atom()
        # t_left = C[argmin(C[:, 0]), 0], t_right = C[argmax(C[:, 0]), 0] for a two-row table C of crossing centres: mean(C[:, 0]) is their midpoint
        if la and la[0] == "idx" and isinstance(la[2], TupleV) and len(la[2].items) == 2:
            C = la[1]
            col = Form.atom(("idx", C, TupleV([SliceV(Const(None), Const(None), Const(None)), la[2].items[1]])))
            two_rows = any(at[0] == "attr" and at[2] == "cluster_centers_" for at in C.atoms()) if isinstance(C, Form) else False
            ok = two_rows and mo in (mk_fn("mean", [col]), mk_fn("sum", [col]) / 2) \
                and ml == Form.atom(("idx", C, TupleV([mk_fn("argmin", [col]), la[2].items[1]]))) and mr == Form.atom(("idx", C, TupleV([mk_fn("argmax", [col]), la[2].items[1]])))
        elif la and la[0] == "idx" and isinstance(la[2], Form) and isinstance(la[1], Form):
            col = la[1]         # the time column held in a variable of its own: col[argmin(col)], col[argmax(col)], col.mean()
            two_rows = any(at[0] == "attr" and at[2] == "cluster_centers_" for at in col.atoms())
            ok = two_rows and mo in (mk_fn("mean", [col]), mk_fn("sum", [col]) / 2) \
                and ml == Form.atom(("idx", col, mk_fn("argmin", [col]))) and mr == Form.atom(("idx", col, mk_fn("argmax", [col])))
        elif la and la[0] == "fn" and la[1] == "min" and len(la[2]) == 1 and not la[3] and isinstance(la[2][0], Form):
            col = la[2][0]      # col[col.argmin()] is col.min(): the earlier and the later of the two crossing centres
            two_rows = any(at[0] == "attr" and at[2] == "cluster_centers_" for at in col.atoms())
            ok = two_rows and mo in (mk_fn("mean", [col]), mk_fn("sum", [col]) / 2) and mr == mk_fn("max", [col])
    ctx.check("C17.7", ok, fi, node, f"GET_EYE [{case}]: t_opt searched at {short(mo, 120)}", "the midpoint of the two crossing times",
              "the optimum instant is not taken midway between the two crossing times (e.g. the mean time of all crossing samples: pulled towards the crossing with more transitions, "
              "so for records whose transitions are unevenly split between the slot-boundary parities t_opt, the sampling index and the level windows move off the eye centre)")


def _is_sample_table(base, ys):
    """the folded record, or an array of the input's own samples (sorted, unique, before resampling ...): not a table of estimates"""
    r = repr(base)
    return (ys in r or "input.signal" in r) and "shortest_int" not in r and "cluster_centers_" not in r


def _sample_picks(b, y):
    """idx atoms in the value b (through merges and sums) that pick an element out of the record y or out of a table derived from it alone"""
    out = []
    ys = repr(y)
    def walk(v, depth=0):
        if not isinstance(v, Form) or depth > 4:
            return
        for m in v.terms:
            for a, _e in m:
                if a[0] == "idx" and isinstance(a[1], Form) and not isinstance(a[2], SliceV) and _is_sample_table(a[1], ys):
                    out.append(a)
                elif a[0] == "phi":
                    for ch in atom_children(a):
                        walk(ch, depth + 1)
    walk(b)
    return out


def rule_boundary(ctx, rule, fi=None):
    """the ON and OFF populations behind mu0, mu1, s0, s1 are the centre samples strictly above / strictly below a boundary:
    that boundary is computed from the level estimates, never a value picked out of the record itself - a sample value near
    one of the levels (data with no sample close to the midpoint: a wide-open eye) is excluded by both strict comparisons
    and can leave one population empty (mu0 / s0 = nan, threshold nan, every decision wrong)"""
    pkg = ctx.pkg
    fi = fi or pkg.func("devices.GET_EYE")
    for resamp in (True, False):
        case = f"sps_resamp {'given' if resamp else 'omitted'}"
        it = Interp(pkg, param_classes={"input": "electrical_signal"}, assumptions={"input.noise": "none", "sps_resamp": ("truth", resamp)}, no_inline=("shortest_int",))
        outs = it.run(fi)
        rets = [o for o in outs if o.kind == "return" and isinstance(o.value, ObjV)]
        if len(rets) != 1 or not isinstance(rets[0].value.fields.get("y"), Form):
            ctx.unknown(rule, fi, fi.node, f"GET_EYE [{case}]: boundary between the level populations", f"{len(rets)} return paths / folded record not identified")
            continue
        eye, y = rets[0].value, rets[0].value.fields["y"]
        seen = {}
        for name in ("mu0", "mu1", "s0", "s1"):
            v = eye.fields.get(name)
            if not isinstance(v, Form):
                continue
            for a in v.atoms():
                if a[0] == "fn" and a[1] in ("gt", "lt", "ge", "le") and len(a[2]) == 2 and (a[2][0] == y) != (a[2][1] == y):
                    b = a[2][1] if a[2][0] == y else a[2][0]
                    if isinstance(b, Form) and b.rational() is None:
                        seen.setdefault(b.key(), (b, name))
        if not seen:
            ctx.unknown(rule, fi, rets[0].node, f"GET_EYE [{case}]: boundary between the level populations", "no comparison of the folded record with a level found in mu0/mu1/s0/s1")
            continue
        for b, name in seen.values():
            picks = _sample_picks(b, y)
            ctx.check(rule, not picks, fi, rets[0].node, f"GET_EYE [{case}]: populations of {name} split at {short(b, 100)}", "a value computed from the level estimates, not an element of the record",
                      f"the boundary between the ON and OFF populations is {short(Form.atom(picks[0]), 160)}: a value picked out of the record. Both comparisons are strict, so on a wide-open eye "
                      "(no sample near the midpoint: the nearest one is the extreme of a level) one population is empty, mu0 or mu1 is nan and the receiver's threshold is nan" if picks else "")


def _axis_slots(t):
    """number of slots one trace of the folded time axis spans: kron(ones(..), linspace(lo, hi, n)) with n = k*sps -> k"""
    a = t.single_atom() if isinstance(t, Form) else None
    if not (a and a[0] == "fn" and a[1].split(".")[-1] == "kron" and len(a[2]) == 2 and isinstance(a[2][1], Form)):
        return None
    l = a[2][1].single_atom()
    if not (l and l[0] == "fn" and l[1].split(".")[-1] == "linspace" and len(l[2]) >= 3 and isinstance(l[2][2], Form)):
        return None
    for sps in (S("gv.sps"), S("sps_resamp")):
        q = (l[2][2] / sps).rational()
        if q is not None and q.denominator == 1 and q >= 1:
            return int(q)
    return None


_ELEMENTWISE = ("abs", "absolute", "fabs", "mod", "remainder", "fmod", "min", "minimum", "max", "maximum", "neg", "round", "floor", "ceil", "where", "real")


def _elementwise_in(v, ts, depth=0):
    """the folded axis enters the value sample by sample (not through a pick, a reduction or a table built from it)"""
    if not isinstance(v, Form) or depth > 8:
        return False
    if repr(v) == ts:
        return True
    for m in v.terms:
        for a, _e in m:
            if repr(Form.atom(a)) == ts:
                return True
            if a[0] == "grp" and _elementwise_in(a[1], ts, depth + 1):
                return True
            if a[0] == "fn" and a[1].split(".")[-1] in _ELEMENTWISE and any(_elementwise_in(x, ts, depth + 1) for x in a[2]):
                return True
    return False


def _window_kind(side, ts):
    """how a quantity compared with a window width depends on the folded time axis: 'raw' (the axis itself: one window per trace),
    'centred' (distance to the nearest image of an instant: |((t - t0 + 1/2) mod 1) - 1/2| or min(r, 1 - r)), 'one-sided'
    (a bare remainder: samples just BEFORE an image have a remainder close to 1 and fall outside), None (does not involve the axis)"""
    if not isinstance(side, Form) or ts not in repr(side) or not _elementwise_in(side, ts):
        return None
    mods = [a for a in side.atoms() if a[0] == "fn" and a[1].split(".")[-1] in ("mod", "remainder", "fmod") and ts in repr(a[2][0])]
    if not mods:
        return "raw"
    sa = side.single_atom()
    if sa and sa[0] == "fn" and sa[1].split(".")[-1] in ("abs", "absolute", "fabs") and isinstance(sa[2][0], Form):
        inner = sa[2][0]
        c = inner.terms.get(())
        if c is not None and c[0] != 0 and any(a in mods for a in inner.atoms(deep=False)):
            return "centred"
    if sa and sa[0] == "fn" and sa[1].split(".")[-1] in ("min", "minimum") and len(sa[2]) == 2 and all(isinstance(x, Form) and any(a in mods for a in x.atoms()) for x in sa[2]):
        return "centred"
    return "one-sided"


def rule_every_slot(ctx, rule):
    """both symbols present does not mean both present at every slot parity: the record is folded two slots per trace, so a
    window around ONE instant of the trace looks at every second slot only. Data whose ON slots all fall on the other parity
    (1010..., PPM symbols that share their parity) leave the ON population empty: mu1 = s1 = nan and the receivers that
    estimate their threshold from the eye decide nothing. The populations behind mu0, mu1, s0, s1 AND the samples the threshold
    density is estimated from must be drawn at the optimum instant of EVERY slot of the trace: a window on the centred
    slot-periodic distance to that instant."""
    pkg = ctx.pkg
    fi = pkg.func("devices.GET_EYE")
    for resamp in (True, False):
        case = f"sps_resamp {'given' if resamp else 'omitted'}"
        label = f"GET_EYE [{case}]: level populations drawn from every slot of the folded trace"
        it = Interp(pkg, param_classes={"input": "electrical_signal"}, assumptions={"input.noise": "none", "sps_resamp": ("truth", resamp)}, no_inline=("shortest_int",))
        rets = [o for o in it.run(fi) if o.kind == "return" and isinstance(o.value, ObjV)]
        if len(rets) != 1 or not isinstance(rets[0].value.fields.get("t"), Form):
            ctx.unknown(rule, fi, fi.node, label, f"{len(rets)} return paths / time axis not identified")
            continue
        eye, t = rets[0].value, rets[0].value.fields["t"]
        k = _axis_slots(t)
        ts = repr(t)
        found = {}
        for name in ("mu0", "mu1", "s0", "s1", "threshold"):
            v = eye.fields.get(name)
            if isinstance(v, Form):
                for a in v.atoms():
                    if a[0] == "fn" and a[1] in ("gt", "ge", "lt", "le") and len(a[2]) == 2:
                        for side in a[2]:
                            kind = _window_kind(side, ts)
                            if kind is not None:
                                found.setdefault(kind, []).append((name, side))
        bad = [(kind, name, side) for kind in ("raw", "one-sided") for name, side in found.get(kind, [])]
        if k is not None and k >= 2 and bad:
            kind, name, side = bad[0]
            fields = sorted({n_ for _k, n_, _s in bad})
            why = ("a window on the raw axis is ONE window per trace, i.e. every second slot" if kind == "raw" else
                   "a bare remainder is one-sided: the samples just before the next image of the instant have a remainder close to 1 and fall outside, on a coarse grid the whole second slot is lost")
            ctx.violation(rule, fi, rets[0].node, label,
                          f"the time axis folds {k} slots per trace and the samples behind {', '.join(fields)} are selected by comparing {short(side, 90)} with the window width: {why}. "
                          "Data whose ON slots share a parity (1010..., PPM symbols of one parity) give an empty or one-level population: mu1 = nan, or a threshold sitting on a level"[:900])
        else:
            ctx.holds(rule, fi, rets[0].node, label, "windows on the centred slot-periodic distance" if found.get("centred") else ("one slot per trace" if k == 1 else "no time window on a multi-slot trace"))


def _negated_parts(c):
    """conjuncts that hold when the condition c is false: not (p or q) = not p and not q, with the comparisons turned round"""
    a = c.single_atom() if isinstance(c, Form) else None
    parts = list(a[2]) if (a and a[0] == "fn" and a[1] == "or") else [c]
    out = []
    for p_ in parts:
        pa = p_.single_atom() if isinstance(p_, Form) else None
        if not (pa and pa[0] == "fn" and len(pa[2]) == 2 and pa[1] in ("gt", "ge", "eq", "ne")):
            return []
        x, y = pa[2]
        out.append(mk_fn({"gt": "ge", "ge": "gt", "eq": "ne", "ne": "eq"}[pa[1]], [y, x] if pa[1] in ("gt", "ge") else [x, y]))
    return out


def _if_guards(a, where):
    """for a two-way merge made by an `if` STATEMENT: {index of the alternative: conditions it is stored under}.  The statement is the
    If at the merge's line; which alternative belongs to its body is told by the kind of value stored there (a grid element or not)"""
    if where is None or len(a[2]) != 2 or "@" not in a[1]:
        return {}
    fi, it = where
    try:
        line = int(a[1].rsplit("@", 1)[1])
    except ValueError:
        return {}
    node = next((n for n in ast.walk(fi.node) if isinstance(n, ast.If) and n.lineno == line), None)
    cf = getattr(it, "cond_forms", {}).get(src_of(node.test)) if node is not None else None
    if cf is None:
        return {}
    def stores_element(block):
        return any(isinstance(st_, ast.Assign) and isinstance(st_.value, ast.Subscript) for st_ in block)
    is_elem = [bool((x.single_atom() or ("",))[0] == "idx") if isinstance(x, Form) else False for x in a[2]]
    if stores_element(node.body) == stores_element(node.orelse) or is_elem[0] == is_elem[1]:
        return {}
    ca = cf.single_atom()
    then_guards = tuple(ca[2]) if (ca and ca[0] == "fn" and ca[1] == "and") else (cf,)
    else_guards = tuple(_negated_parts(cf))
    out = {}
    for i_, e_ in enumerate(is_elem):
        out[i_] = then_guards if e_ == stores_element(node.body) else else_guards
    return out


def _threshold_alternatives(v, guards=(), where=None):
    """(value, conditions under which it is taken) for every alternative of a merged / conditional value"""
    a = v.single_atom() if isinstance(v, Form) else None
    if a and a[0] == "phi" and isinstance(v, Form) and v == Form.atom(a):
        extra = _if_guards(a, where)
        for i_, x in enumerate(a[2]):
            yield from _threshold_alternatives(x, guards + tuple(extra.get(i_, ())), where)
    elif a and a[0] == "fn" and a[1] == "ifexp" and len(a[2]) == 3 and v == Form.atom(a):
        c = a[2][0]
        ca = c.single_atom() if isinstance(c, Form) else None
        conj = list(ca[2]) if (ca and ca[0] == "fn" and ca[1] == "and") else [c]
        yield from _threshold_alternatives(a[2][1], guards + tuple(conj), where)
        yield from _threshold_alternatives(a[2][2], guards + ("else",), where)          # the negation is not used: the else value must stand by itself
    else:
        yield v, guards


def _grid_by_condition(G):
    """linspace(*((lo, hi) if c else (mu0, mu1)), n): both ends chosen by the same condition is the grid chosen by that condition"""
    g = G.single_atom() if isinstance(G, Form) else None
    if g and g[0] == "fn" and g[1] == "linspace" and len(g[2]) >= 2 and G == Form.atom(g):
        e0, e1 = (x.single_atom() if isinstance(x, Form) else None for x in g[2][:2])
        if e0 and e1 and all(e[0] == "fn" and e[1] == "ifexp" and len(e[2]) == 3 and not e[3] for e in (e0, e1)) and vkey(e0[2][0]) == vkey(e1[2][0]) \
                and g[2][0] == Form.atom(e0) and g[2][1] == Form.atom(e1):
            return mk_fn("ifexp", [e0[2][0]] + [mk_fn("linspace", [e0[2][k_], e1[2][k_]] + list(g[2][2:]), list(g[3])) for k_ in (1, 2)])
    return G


def _strictly_between(v, guards, mu0, mu1, depth=0, devs=None):
    """("grid", ok, note) when v is an element of a grid between the levels: ok says whether it provably avoids both levels.
    None when v is not such an element.  A grid between two points that are themselves strictly inside is strictly inside; the
    grid linspace(mu0, mu1, n) without its first and last element is; the whole grid is only under 0 < index < n - 1"""
    a = v.single_atom() if isinstance(v, Form) else None
    if not (a and a[0] == "idx" and isinstance(a[1], Form) and v == Form.atom(a)) or depth > 3:
        return None
    G, i = a[1], a[2]
    g = G.single_atom()
    G_as_used = G
    G = _grid_by_condition(G)
    g = G.single_atom()
    if g and ((g[0] == "fn" and g[1] == "ifexp" and len(g[2]) == 3) or g[0] == "phi") and G == Form.atom(g) and devs is not None:
        # the grid itself is chosen between alternatives (between the bulks of the populations when such an interval exists, else between
        # the levels): each must lie within [mu0, mu1] - an end is a level, or a level moved INTO the eye by a non-negative multiple of
        # its own deviation - and the index must be interior, measured on the grid as used
        alts = list(g[2][1:]) if g[0] == "fn" else list(g[2])
        s0_, s1_ = devs

        def inside_end(e, level, dev, sign):
            if not isinstance(e, Form):
                return False
            if e == level:
                return True
            q = const_float((e - level) / dev) if isinstance(dev, Form) else None
            return q is not None and q * sign >= 0
        ok_alts = True
        counts = []
        for alt in alts:
            ga = alt.single_atom() if isinstance(alt, Form) else None
            if not (ga and ga[0] == "fn" and ga[1] == "linspace" and len(ga[2]) >= 2 and not [1 for k_, _v in ga[3] if k_ == "endpoint"]):
                return None
            lo_, hi_ = ga[2][0], ga[2][1]
            if not ((inside_end(lo_, mu0, s0_, 1) and inside_end(hi_, mu1, s1_, -1)) or (inside_end(hi_, mu0, s0_, 1) and inside_end(lo_, mu1, s1_, -1))):
                ok_alts = False
            if len(ga[2]) > 2 and isinstance(ga[2][2], Form):
                counts.append(ga[2][2])
        if not isinstance(i, Form):
            return ("grid", False, "")
        ns = [mk_fn("len", [G]), Form.atom(("attr", G, "size")), mk_fn("size", [G])] + ([mk_fn("len", [G_as_used]), Form.atom(("attr", G_as_used, "size")), mk_fn("size", [G_as_used])] if G_as_used is not G else []) + (counts[:1] if counts and all(c == counts[0] for c in counts) else [])
        zero, one = Form.num(0), Form.num(1)
        gds = [c for c in guards if isinstance(c, Form)]
        lower = any(c == mk_fn("gt", [i, zero]) or c == mk_fn("ge", [i, one]) or c == mk_fn("ne", [i, zero]) for c in gds)
        upper = any(c == mk_fn("gt", [n - 1, i]) or c == mk_fn("ge", [n - 2, i]) or c == mk_fn("ne", [i, n - 1]) or c == mk_fn("gt", [n, i + 1]) for n in ns for c in gds)
        return ("grid", bool(ok_alts and lower and upper), "" if not (lower or upper) else " on both sides")
    if g and g[0] == "idx" and isinstance(g[1], Form) and isinstance(g[2], SliceV):
        gg = g[1].single_atom()
        sl = g[2]
        if gg and gg[0] == "fn" and gg[1] == "linspace" and len(gg[2]) >= 2 and {vkey(gg[2][0]), vkey(gg[2][1])} == {vkey(mu0), vkey(mu1)}:
            lo_cut = isinstance(sl.lo, Form) and sl.lo.rational() is not None and sl.lo.rational() >= 1
            hi_cut = isinstance(sl.hi, Form) and sl.hi.rational() is not None and sl.hi.rational() <= -1
            return ("grid", bool(lo_cut and hi_cut), "" if not (lo_cut or hi_cut) else " on both sides")
        return None
    if not (g and g[0] == "fn" and g[1] == "linspace" and len(g[2]) >= 2):
        return None
    lo_, hi_ = g[2][0], g[2][1]
    if isinstance(lo_, Form) and isinstance(hi_, Form) and {vkey(lo_), vkey(hi_)} == {vkey(mu0), vkey(mu1)}:
        if not isinstance(i, Form):
            return ("grid", False, "")
        closed = not [1 for k_, _v in g[3] if k_ == "endpoint"]
        ns = [mk_fn("len", [G]), Form.atom(("attr", G, "size")), mk_fn("size", [G])] + ([g[2][2]] if len(g[2]) > 2 and isinstance(g[2][2], Form) else [Form.num(50)])
        zero, one = Form.num(0), Form.num(1)
        guards = [c for c in guards if isinstance(c, Form)]
        lower = any(c == mk_fn("gt", [i, zero]) or c == mk_fn("ge", [i, one]) or c == mk_fn("ne", [i, zero]) for c in guards)
        upper = any(c == mk_fn("gt", [n - 1, i]) or c == mk_fn("ge", [n - 2, i]) or c == mk_fn("ne", [i, n - 1]) or c == mk_fn("gt", [n, i + 1]) for n in ns for c in guards)
        return ("grid", bool(lower and upper and closed), "" if not (lower or upper) else " on both sides")
    if devs is not None and all(isinstance(x_, Form) for x_ in (lo_, hi_) + tuple(devs)):
        # ends written as a level moved by a multiple of its own deviation: into the eye (fine, under the interior test) or out of it
        for e0, e1 in ((lo_, hi_), (hi_, lo_)):
            q0, q1 = const_float((e0 - mu0) / devs[0]), const_float((mu1 - e1) / devs[1])
            if q0 is not None and q1 is not None:
                if q0 < 0 or q1 < 0:
                    return ("grid", False, " (the grid reaches beyond a level)")
                if not isinstance(i, Form):
                    return ("grid", False, "")
                ns = [mk_fn("len", [G]), Form.atom(("attr", G, "size")), mk_fn("size", [G])] + ([g[2][2]] if len(g[2]) > 2 and isinstance(g[2][2], Form) else [])
                zero, one = Form.num(0), Form.num(1)
                gds = [c for c in guards if isinstance(c, Form)]
                lower = any(c == mk_fn("gt", [i, zero]) or c == mk_fn("ge", [i, one]) or c == mk_fn("ne", [i, zero]) for c in gds)
                upper = any(c == mk_fn("gt", [n - 1, i]) or c == mk_fn("ge", [n - 2, i]) or c == mk_fn("ne", [i, n - 1]) or c == mk_fn("gt", [n, i + 1]) for n in ns for c in gds)
                return ("grid", bool(lower and upper), "")
    ends = [_strictly_between(e, guards, mu0, mu1, depth + 1, devs) for e in (lo_, hi_)]
    if all(e is not None for e in ends):
        return ("grid", all(e[1] for e in ends), "")
    return None


def _grid_moved_into_eye(v, mu0, mu1, s0, s1):
    """v = G[i] where (an alternative of) the grid G runs from mu0 + a*s0 to mu1 - b*s1 with constants a, b >= 1"""
    a = v.single_atom() if isinstance(v, Form) else None
    if not (a and a[0] == "idx" and isinstance(a[1], Form)):
        return False
    g = _grid_by_condition(a[1]).single_atom()
    alts = [a[1]]
    if g and g[0] == "fn" and g[1] == "ifexp" and len(g[2]) == 3:
        alts = list(g[2][1:])
    elif g and g[0] == "phi":
        alts = list(g[2])
    for alt in alts:
        ga = alt.single_atom() if isinstance(alt, Form) else None
        if not (ga and ga[0] == "fn" and ga[1] == "linspace" and len(ga[2]) >= 2 and all(isinstance(e, Form) for e in ga[2][:2]) and isinstance(s0, Form) and isinstance(s1, Form)):
            continue
        for lo_, hi_ in ((ga[2][0], ga[2][1]), (ga[2][1], ga[2][0])):
            qa, qb = const_float((lo_ - mu0) / s0), const_float((mu1 - hi_) / s1)
            if qa is not None and qb is not None and qa >= 1 and qb >= 1:
                return True
    return False


def rule_threshold_interior(ctx, rule, rule_bulk=None):
    """mu0 < threshold < mu1: the threshold is read off a grid linspace(mu0, mu1, n) at the least of an estimated density.  That
    least is the valley between the two levels only when it is an interior point; a density estimated from a handful of samples
    (3 OFF and 1 ON slot of one PPM symbol: kernel width 0.38 of the eye) only falls over [mu0, mu1], its least is the LAST grid
    point, the threshold equals mu1 and no sample exceeds it.  Every grid-read alternative of the threshold must therefore be
    taken only under 0 < index < n - 1 (or be read from a grid without its end points)."""
    pkg = ctx.pkg
    fi = pkg.func("devices.GET_EYE")
    label = "GET_EYE: threshold strictly between the two levels"
    it = Interp(pkg, param_classes={"input": "electrical_signal"}, assumptions={"input.noise": "none", "sps_resamp": ("truth", True)}, no_inline=("shortest_int",))
    it.keep_cond_forms = True
    rets = [o for o in it.run(fi) if o.kind == "return" and isinstance(o.value, ObjV)]
    if len(rets) != 1:
        ctx.unknown(rule, fi, fi.node, label, f"{len(rets)} return paths")
        return
    eye = rets[0].value
    mu0, mu1, thr = eye.fields.get("mu0"), eye.fields.get("mu1"), eye.fields.get("threshold")
    if not (isinstance(mu0, Form) and isinstance(mu1, Form) and thr is not None):
        ctx.unknown(rule, fi, rets[0].node, label, "fields mu0 / mu1 / threshold not identified")
        return
    n_alt = 0
    for v, guards in _threshold_alternatives(thr, (), (fi, it)):
        if isinstance(v, Const) and v.v is None:
            # "no estimate": the receivers fall back on THRESHOLD_EST.  When that is not the estimator failing (the except path) but a
            # branch of the selection itself - the end-point case - the fallback runs on exactly the eyes that produce it: a level
            # seen through ONE sample has s = 0, the Gaussian cost is nan at that level, and a plain argmin returns the index of the
            # nan: the threshold is the level again.  The fallback has to ignore undefined entries then.
            if "else" in guards:
                from .c13 import fallback_nan_safe
                safe = fallback_nan_safe(ctx.pkg)
                if safe is None:
                    ctx.unknown(rule, fi, rets[0].node, label + " [no estimate in the end-point case]", "minimiser of ppm.THRESHOLD_EST not identified")
                else:
                    ctx.check(rule, safe, fi, rets[0].node, label + " [no estimate in the end-point case]", "the fallback estimator ignores undefined cost entries",
                              "when the density has no interior minimum the threshold is None and ppm.DSP falls back on ppm.THRESHOLD_EST, whose plain argmin returns the index of a nan: "
                              "with ONE sample in the ON level (one PPM symbol) s1 = 0, the cost is nan at r = mu1 and the threshold is mu1 - no slot exceeds it, HDD raises a random one "
                              "(bits 01, M = 4, sps 16: hard decision 00)")
            continue
        n_alt += 1
        verdict = _strictly_between(v, guards, mu0, mu1, 0, (eye.fields.get("s0"), eye.fields.get("s1")))
        if rule_bulk is not None and verdict is not None and verdict[0] == "grid":
            # ... and the valley is looked for BETWEEN the bulks of the two populations: a grid that runs from level to level includes
            # the inner half of each population, where a level split by inter-symbol interference (or seen through a handful of
            # samples) has a dip of its own that can be deeper than the over-smoothed valley between the levels
            moved = _grid_moved_into_eye(v, mu0, mu1, eye.fields.get("s0"), eye.fields.get("s1"))
            ctx.check(rule_bulk, moved, fi, rets[0].node, "GET_EYE: density valley searched between the bulks of the two populations", "grid ends at least one deviation inside each level",
                      "the density minimum is searched over linspace(mu0, mu1): on a short record with inter-symbol interference the ON samples form two groups and the dip BETWEEN THEM is the "
                      "global minimum - ppm.DSP(hard, estimated threshold) on two 4-PPM symbols (bits 0110, sps 25, NRZ, ER 10 dB, DM -9990 ps^2, PD BW 11 GHz, no noise): ON samples 0.034 / 0.058 / "
                      "0.060, OFF below 0.007, threshold 0.0388 above the lowest ON sample, wrong in 18 of 20 calls (midway decision and soft decision right)")
        if verdict is not None and verdict[0] == "grid":
            ok = verdict[1]
            ctx.check(rule, ok, fi, rets[0].node, label + " [density minimum on the grid]", "taken only when the minimiser is an interior grid point (or read from a grid without the levels)",
                      "the threshold is linspace(mu0, mu1, n)[argmin(density)] with no test that the minimiser is interior" + verdict[2] +
                      ": a density estimated from a few samples only falls (or rises) between the levels, its least is an END of the grid and the threshold equals a level - "
                      "ppm.DSP(hard, estimated threshold) on ONE 4-PPM symbol (bits 01, sps 16, noise free) got threshold = mu1, found no ON slot and returned 00 / 10 / 11 at random")
        elif isinstance(v, Form) and v == (mu0 + mu1) / 2:
            ctx.holds(rule, fi, rets[0].node, label + " [fallback]", "the midpoint of the two levels")
        else:
            ctx.unknown(rule, fi, rets[0].node, label, f"alternative {short(v, 160)} not recognised")
    if not n_alt:
        ctx.unknown(rule, fi, rets[0].node, label, "no estimate is ever stored")


def _fn_names(v, depth=0):
    """names of the functions / methods applied anywhere inside a value (a form, a vector or tuple of forms)"""
    if v is None or depth > 6:
        return set()
    if isinstance(v, Form):
        out = {x[1].split(".")[-1] for x in v.atoms() if x[0] == "fn"} | {x[2] for x in v.atoms() if x[0] == "meth"}
        for x in v.atoms():
            for c in atom_children(x):
                if not isinstance(c, Form):          # a vector / tuple receiver or argument: its elements are not atoms of the form
                    out |= _fn_names(c, depth + 1)
        return out
    items = getattr(v, "items", None)
    if isinstance(items, (list, tuple)):
        out = set()
        for c in items:
            out |= _fn_names(c, depth + 1)
        return out
    return set()


def rule_double_precision(ctx, rule):
    """C17.15: GET_EYE's find_nearest tells a scalar from an array by isinstance(data, (float, np.float64)).  That is right as long
    as everything it is handed is double precision - numpy's default.  An array built with a dtype that follows the record
    (dtype=input.dtype, np.result_type(input, np.float32)) makes the cluster centres float32 for a float32 record, the scalar
    takes the array branch, len() of a numpy scalar raises TypeError and a clean two-level record has no eye at all.  Decided on
    the value forms of the arguments of every find_nearest call: none is built with a dtype= / astype other than float64 -
    unless the scalar test of find_nearest covers every numpy float (np.floating, np.number, numbers.Real)."""
    import re as _re
    pkg = ctx.pkg
    fi = pkg.func("devices.GET_EYE")
    it = Interp(pkg, param_classes={"input": "electrical_signal"}, assumptions={"input.noise": "none", "sps_resamp": ("truth", True)}, no_inline=("shortest_int",))
    try:
        it.run(fi)
    except Exception as ex:
        ctx.unknown(rule, fi, fi.node, "GET_EYE: precision of what find_nearest is handed", f"not interpreted ({type(ex).__name__})")
        return
    calls = [r for r in it.calls if r.callee and "find_nearest" in r.callee]
    if not calls:
        ctx.holds(rule, fi, fi.node, "GET_EYE: no find_nearest helper", "nothing tells scalars from arrays by their exact type")
        return
    # does the helper's scalar test cover every numpy float?
    wide = False
    for f_ in pkg.module("devices").funcs.values():
        if f_.name.lstrip("_") == "find_nearest":
            for n_ in ast.walk(f_.node):
                if isinstance(n_, ast.Call) and src_of(n_.func) == "isinstance" and len(n_.args) == 2 and _re.search(r"floating|np\.number|numpy\.number|Real|Number|np\.generic|float32", src_of(n_.args[1])):
                    wide = True
            if not any(isinstance(n_, ast.Call) and src_of(n_.func) == "isinstance" for n_ in ast.walk(f_.node)):
                wide = True           # no exact-type test at all (np.ndim / np.isscalar): any precision is told apart correctly
    ok64 = _re.compile(r"float64|double|<class float>|^float$|complex128|<class complex>|^'?d'?$")
    for r in calls:
        bad = []
        for a_ in r.args:
            if not isinstance(a_, Form):
                continue
            for x in a_.atoms():
                if x[0] == "fn" and dict(x[3]).get("dtype") is not None and not ok64.search(str(dict(x[3])["dtype"])):
                    bad.append(f"{x[1]}(..., dtype={str(dict(x[3])['dtype'])[:60]})")
                elif ((x[0] == "fn" and x[1] == "astype" and len(x[2]) >= 2) or (x[0] == "meth" and x[2] == "astype" and x[3])) :
                    dt_ = x[2][1] if x[0] == "fn" else x[3][0]
                    if not ok64.search(str(dt_)):
                        bad.append(f"astype({str(dt_)[:60]})")
        ctx.check(rule, wide or not bad, fi, r.node, f"GET_EYE: {src_of(r.node)[:70]} is handed double-precision values", "numpy's default precision (or the helper tells every numpy float as a scalar)",
                  f"built with {bad[0] if bad else ''}: for a float32 record the values are float32, find_nearest's isinstance(data, (float, np.float64)) sends the scalar down the array branch and "
                  "len() of a numpy scalar raises TypeError - GET_EYE raises on a clean two-level float32 record")


def rule_equivariant_guards(ctx, rule):
    """finite estimates for EVERY unit: a guard that ends GET_EYE early (raise / return) must not test the waveform with something that has a
    unit of its own - np.allclose / np.isclose compare with rtol*|b| + atol (the default atol = 1e-8 is volts, the relative part is measured
    against the pedestal), a comparison of samples with a numeric literal is a threshold in volts.  A 1 mV eye on a 100 V offset is then
    "constant", a 1 uV eye "too small": the estimate depends on the unit.  Exact tests (==, array_equal, ptp() == 0) are equivariant"""
    fi = ctx.pkg.func("devices.GET_EYE")
    wave = {"input"}
    for n in ast.walk(fi.node):
        if isinstance(n, ast.Assign) and len(n.targets) == 1 and isinstance(n.targets[0], ast.Name) and any(isinstance(x, ast.Name) and x.id in wave for x in ast.walk(n.value)) \
                and not any(isinstance(x, ast.Call) and src_of(x.func).split(".")[-1] in ("len", "sps", "dt", "KMeans", "linspace", "kron") for x in ast.walk(n.value)):
            if n.targets[0].id in ("samples", "y", "signal", "x_"):
                wave.add(n.targets[0].id)
    mentions = lambda e: any(isinstance(x, ast.Name) and x.id in wave for x in ast.walk(e))
    found = 0
    for n in ast.walk(fi.node):
        if not isinstance(n, ast.If):
            continue
        ends = any(isinstance(x, (ast.Raise, ast.Return)) for st in n.body for x in ast.walk(st))
        if not ends:
            continue
        for x in ast.walk(n.test):
            bad = None
            if isinstance(x, ast.Call) and src_of(x.func).split(".")[-1] in ("allclose", "isclose") and any(mentions(a) for a in x.args):
                bad = f"`{src_of(x)}` compares with rtol*|b| + atol: the absolute part is a voltage, the relative part is measured against the pedestal"
            elif isinstance(x, ast.Compare) and len(x.ops) == 1 and isinstance(x.ops[0], (ast.Lt, ast.LtE, ast.Gt, ast.GtE)):
                sides = [x.left, x.comparators[0]]
                lit = [s_ for s_ in sides if isinstance(s_, ast.Constant) and isinstance(s_.value, (int, float)) and not isinstance(s_.value, bool) and s_.value != 0]
                oth = [s_ for s_ in sides if s_ not in lit]
                if lit and oth and mentions(oth[0]) and not any(isinstance(c_, ast.Call) and src_of(c_.func).split(".")[-1] in ("len", "size", "sps") for c_ in ast.walk(oth[0])) \
                        and not any(isinstance(c_, ast.Attribute) and c_.attr in ("size", "ndim", "shape") for c_ in ast.walk(oth[0])):
                    bad = f"`{src_of(x)}` compares samples with the literal {lit[0].value!r}: a threshold with a unit"
            if bad:
                found += 1
                ctx.violation(rule, fi, n, f"GET_EYE: early exit under `{src_of(n.test)[:80]}`",
                              bad + " - the same waveform in other units (1 mV eye on a 100 V offset; alpha = 1e-3) takes the other branch: GET_EYE raises / returns early where it "
                              "owes finite estimates, and the estimate is not equivariant")
    if not found:
        ctx.holds(rule, fi, fi.node, "GET_EYE: early exits test the waveform only with unit-free conditions", "no tolerance-based or literal-threshold guard on the samples")


def rule_level_split(ctx, rule):
    """mu0, mu1 within 8 % of the levels for EVERY pattern with both symbols present: the first thing GET_EYE does is split the samples
    into an upper and a lower population around `vm`.  Taken as the mean of the two centres of a least-squares 2-means fit with random
    starts, `vm` follows the global optimum - and when one level holds only a few samples (3 ones in 4096 slots at sigma = 5 %) the
    cheaper partition halves the noise cloud of the OTHER level: both populations then come from one level and mu1 lands on mu0.  The
    split has to start from the extremes of the record (k-means initialised at min and max with a single start, or a mid-range value)"""
    pkg = ctx.pkg
    fi = pkg.func("devices.GET_EYE")
    label = "GET_EYE: first split of the samples into the two level populations"
    it = Interp(pkg, param_classes={"input": "electrical_signal"}, assumptions={"input.noise": "none", "sps_resamp": ("truth", False)}, no_inline=("shortest_int",))
    rets = [o for o in it.run(fi) if o.kind == "return" and isinstance(o.value, ObjV)]
    top = rets[0].value.fields.get("top_int") if len(rets) == 1 else None
    vm = None
    if isinstance(top, Form):
        for a in top.atoms():
            if a[0] == "fn" and a[1] in ("gt", "ge") and len(a[2]) == 2 and all(isinstance(x, Form) for x in a[2]):
                y = rets[0].value.fields.get("y")
                other = [x for x in a[2] if not (isinstance(y, Form) and x == y)]
                if len(other) == 1:
                    vm = other[0]
                    break
    if vm is None:
        ctx.unknown(rule, fi, fi.node, label, "boundary of the upper population (argument of shortest_int) not identified")
        return
    fits = [a for a in vm.atoms() if a[0] == "fn" and a[1].split(".")[-1] == "KMeans"]
    names = {a[1].split(".")[-1] for a in vm.atoms() if a[0] == "fn"} | {a[2] for a in vm.atoms() if a[0] == "meth"}
    if not fits:
        ok = {"min", "max"} <= names or {"amin", "amax"} <= names or "ptp" in names
        if ok:
            ctx.holds(rule, fi, rets[0].node, label, "a mid-range value of the record")
        else:
            ctx.unknown(rule, fi, rets[0].node, label, f"boundary {short(vm, 140)} not recognised (neither a clustering nor a mid-range value)")
        return
    for a in fits:
        kw = dict(a[3])
        init = kw.get("init")
        inames = _fn_names(init)
        seeded = init is not None and ({"min", "max"} <= inames or {"amin", "amax"} <= inames)
        ctx.check(rule, seeded, fi, rets[0].node, label, "two clusters started at the minimum and the maximum of the record",
                  "the boundary is the mean of the centres of a 2-means fit with random starts (the global least-squares partition): with 3 ones in 4096 slots and sigma = 5 % of the eye the "
                  "optimum splits the noise cloud of the zero level in two (centres at -0.04 and +0.04) - GET_EYE returns mu0 = -0.039, mu1 = 0.041, threshold 0.001, all finite, nothing "
                  "signals it; it happens whenever the minority fraction is below about 0.8 (sigma/(b-a))^2")


def rule_periodic_crossings(ctx, rule):
    """the crossing instants are found by clustering the mid-band samples over the trace into two groups, one per crossing of the
    two-slot trace.  On the raw axis a group exists only if transitions fall on slot boundaries of that parity: data whose
    transitions all share a parity (0011..., PPM words 1001 1001, alternating M-bit words) leave one group empty, the two
    centres coincide, t_right - t_left = 0, the population window is empty and every level is nan.  The clustered instants must
    therefore carry their one-slot image (a reduction of the axis modulo the slot)."""
    pkg = ctx.pkg
    fi = pkg.func("devices.GET_EYE")
    for resamp in (True, False):
        case = f"sps_resamp {'given' if resamp else 'omitted'}"
        label = f"GET_EYE [{case}]: crossing instants clustered together with their one-slot image"
        it = Interp(pkg, param_classes={"input": "electrical_signal"}, assumptions={"input.noise": "none", "sps_resamp": ("truth", resamp)}, no_inline=("shortest_int",))
        rets = [o for o in it.run(fi) if o.kind == "return" and isinstance(o.value, ObjV)]
        if len(rets) != 1 or not isinstance(rets[0].value.fields.get("t"), Form):
            ctx.unknown(rule, fi, fi.node, label, f"{len(rets)} return paths / time axis not identified")
            continue
        t = rets[0].value.fields["t"]
        k = _axis_slots(t)
        ts = repr(t)
        timed = [(node, fargs[0]) for node, fargs, _kw, depth in it.fit_log if depth == 0 and fargs and ts in repr(fargs[0])]
        if not timed:
            ctx.holds(rule, fi, rets[0].node, label, "no clustering over the time axis")
            continue
        def _top_alternatives(v, depth=0):
            a_ = v.single_atom() if isinstance(v, Form) else None
            if a_ and a_[0] == "phi" and v == Form.atom(a_) and depth < 6:
                for x_ in a_[2]:
                    yield from _top_alternatives(x_, depth + 1)
            else:
                yield v
        for node, data in timed:
            # on EVERY path to the clustering: an image added under a condition (only when all crossings share a side of the trace) is
            # missing exactly when a FEW transitions fall on the other parity - one phase slip in alternating data
            wrapped = all(isinstance(alt, Form) and any(a[0] == "fn" and a[1].split(".")[-1] in ("mod", "remainder", "fmod") and ts in repr(a[2][0]) for a in alt.atoms())
                          for alt in _top_alternatives(data)) if isinstance(data, Form) else False
            ctx.check(rule, wrapped or (k is not None and k < 2), fi, node, label, "a reduction of the time axis modulo the slot among the clustered instants",
                      f"the instants clustered by {src_of(node)[:50]} are samples of the raw {k}-slot axis only: transitions that all fall on slot boundaries of one parity (0011..., PPM slots 1001 1001) "
                      "populate one of the two crossing groups, both centres land on the same crossing, t_right - t_left = 0, the level window is empty and mu0 = mu1 = nan")


def rule_sampling_index(ctx, rule):
    """eye.i is the sample of the slot (0 .. sps-1, original rate) at which the eye is widest.  It is computed from the position k of
    t_opt on the folded axis, which has S samples per slot (S = sps_resamp when the record was resampled, sps otherwise) and was
    rolled by half a slot: i = k - S//2 + 1 on that axis, then rescaled by sps/S.  The half slot must be counted in the axis's own
    samples - sps//2 taken off an index on the resampled axis leaves i near the END of the slot, and for sps = 8 outside [0, sps)."""
    pkg = ctx.pkg
    fi = pkg.func("devices.GET_EYE")
    for resamp in (True, False):
        case = f"sps_resamp {'given' if resamp else 'omitted'}"
        label = f"GET_EYE [{case}]: sampling index counted in the samples of the folded axis"
        it = Interp(pkg, param_classes={"input": "electrical_signal"}, assumptions={"input.noise": "none", "sps_resamp": ("truth", resamp)}, no_inline=("shortest_int",))
        rets = [o for o in it.run(fi) if o.kind == "return" and isinstance(o.value, ObjV)]
        if len(rets) != 1 or not isinstance(rets[0].value.fields.get("t"), Form) or not isinstance(rets[0].value.fields.get("i"), Form):
            ctx.unknown(rule, fi, fi.node, label, f"{len(rets)} return paths / index not identified")
            continue
        eye = rets[0].value
        t, iv = eye.fields["t"], eye.fields["i"]
        ts = repr(t)
        inner = iv
        ia = iv.single_atom()
        if ia is not None and ia[0] == "fn" and ia[1] == "int" and len(ia[2]) == 1 and isinstance(ia[2][0], Form) and iv == Form.atom(ia):
            inner = ia[2][0]
        args = [a for a in inner.atoms(deep=False) if a[0] == "fn" and a[1].split(".")[-1] == "argmin" and ts in repr(a[2][0])]
        if len(args) != 1:
            ctx.holds(rule, fi, rets[0].node, label, "index not computed from one position on the folded axis (not this idiom)")
            continue
        A = Form.atom(args[0])
        S_axis = S("sps_resamp") if resamp else S("gv.sps")
        k = _axis_slots(t)
        want_inner = A - mk_fn("floordiv", [S_axis, Form.num(2)]) + 1
        want = want_inner * S("gv.sps") / S_axis if resamp else want_inner
        # same idiom (an affine function of the position): the offset has to be the half slot of THIS axis
        coef = Form({m: c for m, c in inner.terms.items() if any(a == args[0] for a, _e in m)})
        affine = coef == (A * S("gv.sps") / S_axis if resamp else A)
        if not affine:
            ctx.holds(rule, fi, rets[0].node, label, "index not an affine function of the position with the rate ratio as slope (not this idiom)")
            continue
        ctx.check(rule, inner == want, fi, rets[0].node, label, f"(k - {'sps_resamp' if resamp else 'sps'}//2 + 1) * sps/S",
                  f"the index is {short(inner - coef, 80)} off the position where {short(want - coef, 80)} is the half slot of an axis with {'sps_resamp' if resamp else 'sps'} samples per slot: the roll "
                  "of the record is undone in the wrong unit, the index lands near the end of the slot (sps = 8, sps_resamp = 128: i = 8, outside [0, sps))")


def _odd_count_extended(it, y):
    """the folded record is `z` or `concatenate((z, z[:sps]))` (z: the record cut to whole slots), the longer one taken under a test
    of the parity of z's slot count: an odd number of slots becomes even by the periodic continuation of the record (its first
    slot follows the last one - the devices are FFT based), so every slot enters the statistics"""
    sps = S("gv.sps")
    for a in y.atoms():
        if a[0] != "phi" or len(a[2]) != 2:
            continue
        for z, ext in (a[2], a[2][::-1]):
            e = ext.single_atom() if isinstance(ext, Form) else None
            if not (isinstance(z, Form) and e and e[0] == "fn" and e[1] == "concatenate" and len(e[2]) == 1 and isinstance(e[2][0], (TupleV, VecV))):
                continue
            parts = list(e[2][0].items)
            if len(parts) != 2 or not (isinstance(parts[0], Form) and parts[0] == z and isinstance(parts[1], Form)):
                continue
            h = parts[1].single_atom()
            none = lambda x: isinstance(x, Const) and x.v is None
            if not (h and h[0] == "idx" and isinstance(h[1], Form) and h[1] == z and isinstance(h[2], SliceV) and (none(h[2].lo) or (isinstance(h[2].lo, Form) and h[2].lo.is_zero()))
                    and isinstance(h[2].hi, Form) and h[2].hi == sps and none(h[2].step)):
                continue
            counts = [mk_fn("floordiv", [n, sps]) for n in (Form.atom(("attr", z, "size")), mk_fn("len", [z]), mk_fn("siglen", [z]), mk_fn("size", [z]))]
            counts += [mk_fn("int", [c]) for c in counts]
            lz = _flen(z)                    # z = w[:sps*K]: K slots (K is built as a min with the slots available)
            if lz is not None:
                K = lz / sps
                if isinstance(K, Form) and not any(e < 0 for m in K.terms for _a, e in m):
                    counts.append(K)
            two, one, zero = Form.num(2), Form.num(1), Form.num(0)
            parity = [mk_fn("mod", [c, two]) for c in counts]
            tests = [t for p_ in parity for t in (p_, mk_fn("ne", [p_, zero]), mk_fn("eq", [p_, one]))]
            if any(isinstance(cf, Form) and any(cf == t for t in tests) for cf in it.cond_forms.values()):
                return True
    return False


def rule_even_slots(ctx, rule, rule_all=None):
    """the eye is folded into traces of TWO slots (the time axis is `nslots // 2` copies of a two-slot ramp), so the record must be
    cut to a whole number of two-slot periods: the remainder dropped at the end is taken modulo an even multiple of sps.  With a
    remainder modulo sps only, a record with an odd number of slots (a full PRBS period) is one slot longer than its time axis."""
    pkg = ctx.pkg
    fi = pkg.func("devices.GET_EYE")
    N = mk_fn("siglen", [S("input.signal")])
    for noise in ("notnone", "none"):
        it = Interp(pkg, param_classes={"input": "electrical_signal"}, assumptions={"input.noise": noise, "sps_resamp": ("truth", False)}, no_inline=("shortest_int",))
        it.keep_cond_forms = True
        rets = [o for o in it.run(fi) if o.kind == "return" and isinstance(o.value, ObjV)]
        y = rets[0].value.fields.get("y") if len(rets) == 1 else None
        if not isinstance(y, Form):
            ctx.unknown(rule, fi, fi.node, f"GET_EYE [noise {noise}]: folded record", "not produced on a single return path")
            continue
        mods = []
        for a in y.atoms():
            if a[0] == "idx" and isinstance(a[2], SliceV) and isinstance(a[1], Form) and a[1].sym_name() in ("input.signal", "input.noise") and isinstance(a[2].hi, Form):
                hi = a[2].hi
                for cand, sign in ((hi, -1), (N - hi, 1)):          # x[:-(N % M)]   or   x[:N - N % M]
                    ca = (cand * sign if sign == -1 else cand)
                    ma = ca.single_atom() if isinstance(ca, Form) else None
                    if ma is not None and ma[0] == "fn" and ma[1] == "mod" and len(ma[2]) == 2 and vkey(ma[2][0]) == vkey(N):
                        mods.append((ma[2][1], a))
                fa = hi.single_atom() if len(hi.terms) == 1 else None   # x[:(N // M) * M]
                if not mods and isinstance(hi, Form):
                    for M_ in (2 * S("gv.sps"), S("gv.sps")):
                        if hi == mk_fn("floordiv", [N, M_]) * M_:
                            mods.append((M_, a))
        if not mods:
            ctx.unknown(rule, fi, rets[0].node, f"GET_EYE [noise {noise}]: truncation of the record", "no end-truncation of the input by a remainder found")
            continue
        bad, drops = [], []
        for M_, a in mods:
            q = (M_ / (2 * S("gv.sps"))).rational() if isinstance(M_, Form) else None
            if q is None or q.denominator != 1 or q <= 0:
                if isinstance(M_, Form) and M_ == S("gv.sps") and _odd_count_extended(it, y):
                    continue              # cut to whole slots, then one more slot appended exactly when their number is odd
                bad.append(M_)
            else:
                drops.append(M_)
        if rule_all is not None and not bad:
            # the receiver decides EVERY slot with a threshold computed from these statistics: a whole slot that is cut off the record
            # (the last one of an odd count, which sits next to the wrap-around of the FFT based devices and is the most disturbed one)
            # is decided without ever having been seen
            ctx.check(rule_all, not drops, fi, rets[0].node, f"GET_EYE [noise {noise}]: every whole slot of the record enters the eye statistics", "the record is cut to whole slots and an odd count continued periodically",
                      f"the record is cut by its remainder modulo {drops[0]!r}: with an odd number of slots the last one is left out of mu0, mu1, s0, s1 - ook.DSP on 35 slots of PRBS-7 "
                      "(sps 33, Gaussian m=2, ER 10 dB, DM -99 ps^2, PD BW 14.85R, no noise) estimated s0 = 4e-4 of the eye from the other zeros, put the Gaussian-optimal threshold 2.9 % of "
                      "the eye above mu0 and decided the unseen last 0 (3.5 % above mu0, eye margin 0.86) as 1" if drops else "")
        ctx.check(rule, not bad, fi, rets[0].node, f"GET_EYE [noise {noise}]: record cut to whole two-slot periods (remainder modulo {mods[0][0]!r})", "an even multiple of sps",
                  f"the record is cut by its remainder modulo {bad[0]!r}, which is not an even multiple of sps: a record with an odd number of slots stays one slot longer than the time axis "
                  "(nslots // 2 two-slot traces), the eye cannot be folded (IndexError) and the OOK receiver that estimates its threshold from the eye returns nothing" if bad else "")


def run(ctx):
    pkg = ctx.pkg
    fi = pkg.func("devices.GET_EYE")
    samples = {"input.signal": LEVEL_T, "input.noise": DIFF}
    for noise in ("notnone", "none"):
        for resamp in (True, False):
            case = f"noise {noise}, sps_resamp {'given' if resamp else 'omitted'}"
            it = Interp(pkg, param_classes={"input": "electrical_signal"}, assumptions={"input.noise": noise, "sps_resamp": ("truth", resamp)}, no_inline=("shortest_int",))
            outs = it.run(fi)
            rets = [o for o in outs if o.kind == "return" and isinstance(o.value, ObjV)]
            if len(rets) != 1:
                ctx.unknown("C17.1", fi, fi.node, f"GET_EYE [{case}]", f"{len(rets)} return paths")
                continue
            eye = rets[0].value
            # distance-based sinks first: arguments of KMeans.fit
            fit_type = {}
            for k, (node, fargs, fkw, fdepth) in enumerate(it.fit_log):
                if fdepth != 0:
                    continue
                tp = Typer(samples, fit_types=fit_type)
                t = tp.ty(fargs[0]) if fargs else UNK
                if t == BAD and not tp.errors:
                    tp.err("clustered data", "the data are not affine-equivariant quantities (product/ratio involving an absolute level)")
                for what, why in tp.errors:
                    ctx.violation("C17.1", fi, node, f"GET_EYE: data given to {src_of(node)[:60]}", f"{what[:200]}: {why}")
                if not tp.errors:
                    ctx.holds("C17.1", fi, node, f"GET_EYE [{case}]: data given to {src_of(node)[:60]}", f"single type: {t!r}")
                fit_type[k] = t if isinstance(t, (T, ColT)) else (ANY if tp.errors else UNK)
            tp = Typer(samples, fit_types=fit_type)
            for name, want in FIELD_TYPES.items():
                if name not in eye.fields:
                    ctx.unknown("C17.1", fi, rets[0].node, f"GET_EYE field `{name}`", "field not produced")
                    continue
                n0 = len(tp.errors)
                t = tp.ty(eye.fields[name])
                new = tp.errors[n0:]
                for what, why in new:
                    ctx.violation("C17.1", fi, rets[0].node, f"GET_EYE field `{name}`: {what}"[:300], why)
                if new:
                    continue
                if t == want or t == ANY or (t == ZERO and want.s == 0):
                    ctx.holds("C17.1", fi, rets[0].node, f"GET_EYE [{case}] field `{name}`", f"{want!r}")
                elif t == UNK:
                    ctx.unknown("C17.1", fi, rets[0].node, f"GET_EYE [{case}] field `{name}`", "unit type not determined (unsummarised routine in its definition)")
                elif t == BAD:
                    ctx.violation("C17.1", fi, rets[0].node, f"GET_EYE field `{name}`", f"is not an affine-equivariant quantity (product/ratio/modulus of level-typed values); required: {want!r}")
                else:
                    ctx.violation("C17.1", fi, rets[0].node, f"GET_EYE field `{name}`", f"has type {t!r}; the statement requires {want!r}")
            # slot alignment: the time axis is built independently of the data (slot boundaries at sample 0, sps, 2*sps, ...), so
            # the record may be shortened only at its END or by whole slots at its start; a start offset that is not a multiple of
            # sps shifts every crossing by a fraction of a slot against that axis
            ywave = eye.fields.get("y")
            if isinstance(ywave, Form):
                starts = []
                for a in ywave.atoms():
                    if a[0] == "idx" and isinstance(a[2], SliceV) and not (isinstance(a[2].lo, Const) and a[2].lo.v is None):
                        starts.append((a[2].lo, a))
                bad_start = []
                for lo, a in starts:
                    if isinstance(lo, Form) and (lo.is_zero() or all(any(at[0] == "sym" and at[1].split(".")[-1] in ("sps", "sps_resamp") for at, _e in m) for m in lo.terms)):
                        continue
                    bad_start.append(lo)
                ctx.check("C17.3", not bad_start, fi, rets[0].node, f"GET_EYE [{case}]: record trimmed at its end / by whole slots only ({len(starts)} start offsets)", "sample 0 stays a slot boundary",
                          f"the waveform is cut from sample {bad_start[0]!r} on, which is not a whole number of slots: the folded eye is shifted by a fraction of a slot against the time axis (crossings and sampling instant misplaced for records that are not a whole number of eye periods)"[:600] if bad_start else "")
            # C17.5 the folded record holds exactly the slots the time axis is built for: resampling maps flen(x) samples at sps per
            # slot onto `num` samples at sps_resamp per slot, so num*sps == flen(x)*sps_resamp (otherwise the time axis is
            # compressed: slot boundaries drift through the eye); without resampling the record has sps samples for each slot of t
            def _rate_verdict(ywave, taxis):
                """("unknown", label, why) or ("check", ok, label, holds, violated) for one branch of the preprocessing"""
                ya = ywave.single_atom()
                S_ = S("gv.sps")
                if ya is not None and ya[0] == "fn" and ya[1].split(".")[-1] == "resample_poly" and len(ya[2]) >= 3:
                    up, down = ya[2][1], ya[2][2]
                    ok_rate = isinstance(up, Form) and isinstance(down, Form) and up * S_ == down * S("sps_resamp")
                    lx = _flen(ya[2][0])
                    NL = _slots_of_axis(taxis)
                    ok_len = lx is not None and NL is not None and lx == NL * S_
                    return ("check", bool(ok_rate and ok_len), f"GET_EYE [{case}]: polyphase resampling keeps the slot rate (up/down == sps_resamp/sps) on a record of nslots*sps samples", "the record is cut to the slots the time axis covers",
                            "the up/down ratio is not sps_resamp/sps, or the record handed to the resampler does not hold exactly the slots the time axis is built for")
                if ya is not None and ya[0] == "fn" and ya[1].split(".")[-1] == "resample" and len(ya[2]) >= 2:
                    lx, num = _flen(ya[2][0]), ya[2][1]
                    spr = S("sps_resamp")
                    if lx is None or not isinstance(num, Form):
                        return ("unknown", f"GET_EYE [{case}]: resampled record", "sample count of the record handed to resample not determined")
                    return ("check", num * S_ == lx * spr, f"GET_EYE [{case}]: resample keeps the slot rate (num*sps == len*sps_resamp)", "the record is cut to the slots the time axis covers",
                            f"resample maps {short(lx, 90)} samples (sps per slot) onto {short(num, 90)} samples (sps_resamp per slot): for a record longer than the slot cap the time axis is compressed, "
                            "slot boundaries drift through the eye window and levels, sigmas and crossings are smeared")
                ly = _flen(ywave)
                NL = _slots_of_axis(taxis)
                if ly is None or NL is None:
                    return ("unknown", f"GET_EYE [{case}]: record vs time axis", "sample count of the record or slot count of the axis not determined")
                return ("check", ly == NL * S_, f"GET_EYE [{case}]: record has sps samples per slot of the time axis", "len(y) == nslots*sps",
                        f"the record holds {short(ly, 90)} samples but the time axis is built for {short(NL, 90)} slots of sps samples")

            if isinstance(ywave, Form):
                # a conditional preprocessing step (an odd slot count continued by one slot, the slot count raised with it) merges
                # several variables at ONE point: the branches are judged one by one, each with all its values together
                verdicts = [_rate_verdict(y_, t_) for y_, t_ in _merge_branches([ywave, eye.fields.get("t")])]
                unk = [v_ for v_ in verdicts if v_[0] == "unknown"]
                if unk:
                    ctx.unknown("C17.5", fi, rets[0].node, unk[0][1], unk[0][2])
                else:
                    worst = next((v_ for v_ in verdicts if not v_[1]), verdicts[0])
                    ctx.check("C17.5", all(v_[1] for v_ in verdicts), fi, rets[0].node, worst[2], worst[3] + (f" (on each of {len(verdicts)} preprocessing branches)" if len(verdicts) > 1 else ""), worst[4])
            rule_midway(ctx, fi, eye, rets[0].node, case)
            # C17.4 the two level populations are separated by VALUE (a level-typed threshold between the clusters), never by RANK:
            # a cut of the sorted samples at a position computed from the record length alone assumes a fixed proportion of ones
            # and zeros, and the statement quantifies over every bit pattern with both symbols present
            pops = []
            for name in ("top_int", "bot_int", "mu0", "mu1", "s0", "s1"):
                v_ = eye.fields.get(name)
                if isinstance(v_, Form):
                    for a in v_.atoms():
                        if a[0] == "fn" and a[1].split(".")[-1] == "shortest_int" and a[2]:
                            pops.append((name, a[2][0]))
            seen_p = set()
            for name, data in pops:
                kk = vkey(data)
                if kk in seen_p:
                    continue
                seen_p.add(kk)
                rk = _rank_split(data)
                ctx.check("C17.4", rk is None, fi, rets[0].node, f"GET_EYE [{case}]: population given to shortest_int ({name}) selected by value", "not a fixed-rank cut of the sorted samples",
                          f"the population is the sorted record cut at position {rk}: a fixed rank that does not depend on the sample values, so for a pattern with unequal numbers "
                          "of ones and zeros samples of the majority level land in the other population and mu0/mu1/s0/s1 are biased beyond the stated tolerances" if rk else "")
            # every comparison / sum reachable from the other stored fields as well
            for name in ("y_top", "y_bot", "y", "t", "top_int", "bot_int"):
                if name in eye.fields:
                    n0 = len(tp.errors)
                    tp.ty(eye.fields[name])
                    for what, why in tp.errors[n0:]:
                        ctx.violation("C17.1", fi, rets[0].node, f"GET_EYE `{name}`: {what}"[:300], why)
    # shortest_int's own body
    fs_ = pkg.func("utils.shortest_int")
    it = Interp(pkg)
    outs = it.run(fs_)
    rets = [o for o in outs if o.kind == "return"]
    tp = Typer({"data": LEVEL_T, "percent": NUM})
    if len(rets) >= 1:
        for o in rets:
            t = tp.ty(o.value)
        for what, why in tp.errors:
            ctx.violation("C17.1", fs_, rets[0].node, "shortest_int: " + what.split("(")[0].strip(), f"{what[:200]}: {why}")
        if not tp.errors:
            ctx.check("C17.1", t == LEVEL_T or t == ANY, fs_, rets[0].node, "shortest_int result", "two data values (level type)", f"result type {t!r} is not that of the data")
    else:
        ctx.unknown("C17.1", fs_, fs_.node, "shortest_int", "no return")
    rule_even_slots(ctx, "C17.6")
    check_late_binding(ctx, "C17.2", ["devices.GET_EYE"])
    ctx.require_min("C17.1", 40)
    ctx.require_min("C17.3", 4)
    ctx.require_min("C17.4", 8)
    ctx.require_min("C17.5", 4)
    ctx.require_min("C17.6", 2)
    ctx.require_min("C17.7", 4)
    rule_boundary(ctx, "C17.8")
    ctx.require_min("C17.8", 2)
    rule_every_slot(ctx, "C17.9")
    ctx.require_min("C17.9", 2)
    rule_periodic_crossings(ctx, "C17.10")
    ctx.require_min("C17.10", 2)
    rule_sampling_index(ctx, "C17.11")
    rule_threshold_interior(ctx, "C17.12")
    rule_level_split(ctx, "C17.13")
    rule_equivariant_guards(ctx, "C17.14")
    rule_double_precision(ctx, "C17.15")
    ctx.require_min("C17.15", 1)
    ctx.require_min("C17.11", 2)
