"""C18 - ADC is a true n-bit quantiser; shortest_int returns a shortest covering interval."""
from __future__ import annotations

import ast

from ..absint import Interp, ObjV, VecV
from ..forms import Const, Form, SliceV, TupleV, fpow, mk_fn
from ..rules import S, check_late_binding
from ..srcmodel import src_of

EXPLANATION = (
    "Value forms of devices.ADC and utils.shortest_int. C18.1 (must-pass-through): the code array that reaches the output (both otype "
    "settings) is the rounded code clamped to [0, 2**n-1] (np.clip / .clip / minimum-maximum pair with exactly those bounds); without "
    "the clamp out-of-range samples produce codes outside the n-bit range. C18.2: the code is round((x-V_min)/(V_max-V_min)*(2**n-1)), "
    "the 'v' back-map is its exact affine inverse (composition = identity), [V_min, V_max] = shortest_int(signal, 99.99)"
    ". C18.3: shortest_int sorts the data, uses lag = int(len*p/100), forms the candidates sorted[lag:]-sorted[:-lag] and "
    "returns (sorted[i], sorted[i+lag]) where i is argmin of the candidates (an element of the minimiser set); an index computed "
    "arithmetically from several minimisers (mean, midpoint) need not be a minimiser and is reported; the truncated quantity is "
    "(p*len)/100 evaluated product-first (floor makes the floating-point rounding order observable). A cast applied before the clamp must hold every rounded value (int/int64/float; a narrower type wraps out-of-range codes before they can saturate). C18.4: no late binding of gv. Not decided: distribution-"
    "dependent behaviour.")
EXPLANATION += (' Added after the audit wave: C18.3 the lag-differences of shortest_int are written in the form defined for every lag (sorted[lag:] - sorted[:len-lag]); `[:-lag]` is the empty slice for lag 0, i.e. for percent*len < 100.')
EXPLANATION += (' Second audit wave: C18.1 an integer cast between rounding and the clamp needs the value saturated to [0, 2**n-1] in floating point first (a ratio beyond 2**63, inf or nan has no integer value).')
EXPLANATION += (' Wave 14: C18.5 ADC and shortest_int leave their arguments as they found them (the in-place clause of C14: an augmented assignment on a name that may alias argument data).')
TRUSTED = ["numpy.round/clip/sort/argmin semantics"]


def strip_clip(v):
    """clip(x, lo, hi) / minimum(maximum(x, lo), hi) -> (x, lo, hi) or None"""
    a = v.single_atom() if isinstance(v, Form) else None
    if a and a[0] == "fn":
        if a[1] == "clip" and len(a[2]) >= 3:
            return a[2][0], a[2][1], a[2][2]
        if a[1] == "clip" and len(a[2]) == 1:
            kw = dict(a[3])
            return a[2][0], kw.get("a_min", kw.get("min")), kw.get("a_max", kw.get("max"))
        if a[1] == "minimum" and len(a[2]) == 2:
            inner = a[2][0].single_atom() if isinstance(a[2][0], Form) else None
            if inner and inner[0] == "fn" and inner[1] == "maximum":
                return inner[2][0], inner[2][1], a[2][1]
        if a[1] == "maximum" and len(a[2]) == 2:
            inner = a[2][0].single_atom() if isinstance(a[2][0], Form) else None
            if inner and inner[0] == "fn" and inner[1] == "minimum":
                return inner[2][0], a[2][1], inner[2][1]
    return None


def _range_has_width(d):
    """sign of k*(hi - lo) for (lo, hi) = the two elements of one shortest_int result: hi > lo on the property's domain
    (a flat signal - zero-width range - is outside it; code handling that case separately is not taken)"""
    if not isinstance(d, Form) or len(d.terms) != 2:
        return None
    items = []
    for m, c in d.terms.items():
        if len(m) != 1 or m[0][1] != 1 or c[1] != 0:
            return None
        a = m[0][0]
        if not (a[0] == "idx" and isinstance(a[1], Form) and isinstance(a[2], Form) and a[2].rational() in (0, 1)):
            return None
        ba = a[1].single_atom()
        if not (ba and ba[0] == "fn" and ba[1].split(".")[-1] == "shortest_int"):
            return None
        items.append((int(a[2].rational()), c[0], a[1]))
    (i0, c0, b0), (i1, c1, b1) = items
    if i0 == i1 or c0 != -c1 or b0 != b1:
        return None
    chi = c0 if i0 == 1 else c1          # coefficient of hi
    return 1 if chi > 0 else -1


def _nonempty_data(d):
    """len(data) - c > 0 for c <= 1 (the statement is about data sets, signals of length 2..2^17)"""
    if isinstance(d, Form):
        for sign in (1, -1):
            e = d * sign
            for ln in (mk_fn("len", [S("data")]), mk_fn("size", [S("data")]), S("data.size")):
                q = (e - ln).rational() if isinstance(e - ln, Form) else None
                if q is not None and q > -2:
                    return sign
    return None


def _adc_domain(d):
    r = _range_has_width(d)
    if r is not None:
        return r
    if isinstance(d, Form):
        q = (d - S("n")).rational() if isinstance(d - S("n"), Form) else None
        if q is not None and q >= -1:
            return "ge0" if q == -1 else 1           # n >= 1
        q = (d + S("n")).rational() if isinstance(d + S("n"), Form) else None
        if q is not None and q <= 1:
            return "le0" if q == 1 else -1
    return None


def peel_cast(v):
    """astype(x, T) -> x (a cast AFTER the clamp acts on codes already inside [0, 2**n-1])"""
    a = v.single_atom() if isinstance(v, Form) else None
    while a and a[0] == "fn" and a[1] == "astype" and a[2]:
        v = a[2][0]
        a = v.single_atom() if isinstance(v, Form) else None
    return v


def _lag_rounding(ctx, fs_):
    """lag = floor(p*len/100) is a *discontinuous* function of a floating-point quotient, so the order of the two roundings
    matters: read with the language's precedence the statement's formula is floor((p*len)/100) - the product first (it is
    exact whenever p*len is an integer), one division last.  `(p/100)*len` rounds p/100 first and lands one below the
    integer for e.g. p=29, len=100 (28.999999999999996).  Decided on the expression tree of the truncated quantity with
    local temporaries inlined; commuting the product or using // instead of int(/) does not matter."""
    import ast
    from ..rules import body_nodes
    from ..srcmodel import src_of
    data, pct = fs_.params[0], fs_.params[1]
    assigns = {}
    for n in body_nodes(fs_):
        if isinstance(n, ast.Assign) and len(n.targets) == 1 and isinstance(n.targets[0], ast.Name):
            assigns.setdefault(n.targets[0].id, []).append(n.value)

    def inline(e, depth=0):
        if isinstance(e, ast.Name) and e.id not in (pct,) and len(assigns.get(e.id, [])) == 1 and depth < 4:
            v = assigns[e.id][0]
            if not (isinstance(v, ast.Call) and src_of(v.func).split(".")[-1] in ("sort", "sorted", "array", "asarray")):
                return inline(v, depth + 1)
        return e

    def is_len(e):
        e = inline(e)
        return (isinstance(e, ast.Call) and src_of(e.func) == "len") or (isinstance(e, ast.Attribute) and e.attr == "size") \
            or (isinstance(e, ast.Subscript) and isinstance(e.value, ast.Attribute) and e.value.attr == "shape")

    def is_pct(e):
        e = inline(e)
        return isinstance(e, ast.Name) and e.id == pct

    def is_100(e):
        e = inline(e)
        return isinstance(e, ast.Constant) and e.value in (100, 100.0)
    found = None
    for n in body_nodes(fs_):
        if isinstance(n, ast.Call) and src_of(n.func).split(".")[-1] in ("int", "floor", "trunc") and n.args:
            arg = inline(n.args[0])
            names = {x.id for x in ast.walk(arg) if isinstance(x, ast.Name)}
            if pct in names or any(pct in {y.id for y in ast.walk(inline(x)) if isinstance(y, ast.Name)} for x in ast.walk(arg) if isinstance(x, ast.Name)):
                found = (n, arg)
        if isinstance(n, ast.BinOp) and isinstance(n.op, ast.FloorDiv) and is_100(n.right) and found is None:
            found = (n, ast.BinOp(left=n.left, op=ast.Div(), right=n.right))
    if found is None:
        ctx.unknown("C18.3", fs_, fs_.node, "shortest_int: lag rounding", "the truncation producing lag was not found")
        return
    node, arg = found
    ok = isinstance(arg, ast.BinOp) and isinstance(arg.op, ast.Div) and is_100(arg.right)
    if ok:
        prod = inline(arg.left)
        ok = isinstance(prod, ast.BinOp) and isinstance(prod.op, ast.Mult) and ((is_len(prod.left) and is_pct(prod.right)) or (is_pct(prod.left) and is_len(prod.right)))
    ctx.check("C18.3", ok, fs_, node, f"shortest_int: lag = {src_of(node)}", "floor((p*len)/100): product first, one division last",
              "the truncated quantity is not (p*len)/100 evaluated product-first: p/100 is rounded before the multiplication, so for lengths and percentages whose "
              "product is a multiple of 100 (e.g. p=29, len=100) the quotient lands just below the integer and lag is one too small")


def _real_signals(fn, args):
    return {"numpy.iscomplexobj": False, "numpy.isrealobj": True}.get(fn)


def run(ctx):
    # C18.5: ADC leaves its argument as it found it - a record quantised twice (two bit depths, both otype values) is the same record
    # both times; an in-place `signal += input.noise` on an alias of input.signal turns the second conversion into signal + 2*noise
    from .c14 import rule_inplace
    rule_inplace(ctx, "C18.5", ["devices.ADC", "utils.shortest_int"])
    pkg = ctx.pkg
    fi = pkg.func("devices.ADC")
    top = fpow(Form.num(2), S("n")) - 1
    for noise in ("none", "notnone"):
        x = S("input.signal") + (S("input.noise") if noise == "notnone" else 0)
        for ot in ("n", "v"):
            case = f"otype='{ot}', noise {noise}"
            it = Interp(pkg, param_classes={"input": "electrical_signal"}, assumptions={"input.noise": noise, "fs": None, "otype": ot, "n": ("inst", "int")}, no_inline=("shortest_int",))
            it.domain_pred = _real_signals           # "for all real signals", n an integer number of bits
            it.keep_astype = True      # a cast between rounding and clamping matters (wrap-around of out-of-range codes)
            it.domain_sign = _adc_domain           # the statement is about signals whose 99.99% range has positive width, and n in 1..12
            it.finite_domain = True                # "real signals": finite samples
            outs = it.run(fi)
            rets = [o for o in outs if o.kind == "return"]
            if len(rets) != 1 or not isinstance(rets[0].value, ObjV):
                ctx.unknown("C18.1", fi, fi.node, f"ADC [{case}]", f"{len(rets)} return paths")
                continue
            si = [r for r in it.calls if r.callee == "opticomlib.utils.shortest_int"]
            if len(si) != 1:
                ctx.violation("C18.2", fi, fi.node, f"ADC [{case}]: full-scale range", "range is not estimated by one shortest_int(signal, 99.99) call")
                continue
            r = si[0]
            pct = r.arg(1, "percent")
            ok = r.args and r.args[0] == x and isinstance(pct, Form) and pct == Form.num(99.99)
            ctx.check("C18.2", ok, fi, r.node, f"ADC [{case}]: {src_of(r.node)}", "shortest interval holding 99.99% of signal+noise", "full-scale range is not shortest_int(signal[+noise], 99.99)")
            Vmin_a, Vmax_a = Form.atom(("idx", r.result, Form.num(0))), Form.atom(("idx", r.result, Form.num(1)))
            Vm, Dd = S("V_min"), S("D")

            def norm(f):
                return f.subst(lambda a: Vm if Form.atom(a) == Vmin_a else (Vm + Dd if Form.atom(a) == Vmax_a else None)) if isinstance(f, Form) else f
            sig = norm(rets[0].value.fields.get("signal"))
            code_want = mk_fn("round", [(x - Vm) / Dd * top])
            if ot == "v":
                # back-map: sig = code/(2^n-1)*D + V_min  -> isolate the code
                codes = [a for a in sig.atoms(deep=False) if a[0] == "fn" and a[1] in ("clip", "minimum", "maximum", "round", "astype")] if isinstance(sig, Form) else []
                if len(codes) != 1:
                    ctx.violation("C18.2", fi, rets[0].node, f"ADC [{case}]: back-map", "output is not an affine map of a single code array")
                    continue
                code = Form.atom(codes[0])
                back_want = code / top * Dd + Vm
                ctx.check("C18.2", sig == back_want, fi, rets[0].node, f"ADC [{case}]: volts = code/(2^n-1)*(V_max-V_min)+V_min", "exact affine inverse of the quantiser map",
                          f"the 'v' back-map {sig!r} is not the inverse of the code map: in-range samples move by more than half a step"[:500])
            else:
                code = sig
            sc = strip_clip(peel_cast(code))
            if sc is None:
                inner = peel_cast(code)
                ia = inner.single_atom() if isinstance(inner, Form) else None
                if ia and ia[0] == "fn" and ia[1] == "round":
                    ctx.violation("C18.1", fi, rets[0].node, f"ADC [{case}]: rounded code reaches the output unclamped",
                                  "no clamp to [0, 2**n-1] between rounding and the output: samples outside the estimated full-scale range (0.01% by construction, more for "
                                  "heavy tails) give codes below 0 or above 2**n-1, i.e. more than 2**n distinct values")
                else:
                    ctx.unknown("C18.1", fi, rets[0].node, f"ADC [{case}]: code array {code!r}"[:300], "neither a clamped nor a plain rounded code")
                raw = code
            else:
                raw, lo, hi = sc
                ok = isinstance(lo, Form) and lo == Form.num(0) and isinstance(hi, Form) and hi == top
                ctx.check("C18.1", ok, fi, rets[0].node, f"ADC [{case}]: codes clamped to [{lo!r}, {hi!r}]", "[0, 2**n-1]: out-of-range samples saturate at the end codes",
                          f"clamp bounds [{lo!r}, {hi!r}] are not [0, 2**n-1]")
            # a cast applied to the rounded code BEFORE the clamp must keep every out-of-range code (a wide signed integer or float);
            # an unsigned / minimal-width type wraps negative or too-large codes into the valid range instead of saturating
            ra = raw.single_atom() if isinstance(raw, Form) else None
            if ra and ra[0] == "fn" and ra[1] == "astype" and len(ra[2]) == 2:
                tname = repr(ra[2][1])
                wide = any(k in tname for k in ("class int", "int64", "int32", "class float", "float64", "longlong", "intp"))
                ctx.check("C18.1", wide, fi, rets[0].node, f"ADC [{case}]: rounded code cast to {tname} before the clamp", "a wide signed type: out-of-range codes survive until they are clamped",
                          f"the rounded code is cast to {tname} before clip(0, 2**n-1): codes below 0 (and, for an 8-bit type, above 255) wrap around instead of saturating at the end codes")
                raw = ra[2][0]
                # a float beyond 2**63, an infinity or a nan has no integer value (the cast gives INT64_MIN, which the clamp then sends
                # to code 0): the ratio (x-V_min)/(V_max-V_min) is unbounded for a far outlier and infinite for a range of zero width,
                # so an INTEGER cast before the clamp needs the rounded value saturated in floating point first
                if not any(k in tname for k in ("class float", "float64", "float32", "longdouble")):
                    ria = raw.single_atom() if isinstance(raw, Form) else None
                    pre = strip_clip(ria[2][0]) if ria and ria[0] == "fn" and ria[1] == "round" and ria[2] and isinstance(ria[2][0], Form) else strip_clip(raw)
                    pre_ok = pre is not None and isinstance(pre[1], Form) and pre[1] == Form.num(0) and isinstance(pre[2], Form) and pre[2] == top
                    ctx.check("C18.1", pre_ok, fi, rets[0].node, f"ADC [{case}]: value cast to {tname} is already saturated to [0, 2**n-1]", "clamped in floating point before the integer cast",
                              f"an integer cast of the rounded ratio comes before any clamp (cast to {tname}): for a sample far above the range (ratio beyond 2**63) or a range of zero width (ratio inf / nan: a two-level "
                              "signal whose rare level falls outside the 99.99% interval) the cast yields INT64_MIN and the clamp makes it code 0 - a sample ABOVE the range gets the LOWEST code")
                    if pre_ok:
                        raw = mk_fn("round", [pre[0]]) if ria and ria[0] == "fn" and ria[1] == "round" else pre[0]
            ctx.check("C18.2", isinstance(raw, Form) and raw == code_want, fi, rets[0].node, f"ADC [{case}]: code = {raw!r}"[:300], "round((x-V_min)/(V_max-V_min)*(2**n-1))",
                      f"quantiser map differs from {code_want!r}")
    it = Interp(pkg, param_classes={"input": "electrical_signal"}, assumptions={"input.noise": "none", "fs": None, "otype": "volts"}, no_inline=("shortest_int",))
    outs = it.run(fi)
    pass  # (clause removed: the property statement names no exception for this case - it was read off the docstring, i.e. the check demanded more than the property)
    # ---------------------------------------------------------------- shortest_int
    fs_ = pkg.func("utils.shortest_int")
    it = Interp(pkg)
    it.finite_domain = True                       # data sets of real numbers
    it.domain_sign = _nonempty_data               # ... with at least two of them
    outs = it.run(fs_)
    rets = [o for o in outs if o.kind == "return"]
    if len(rets) != 1:
        ctx.unknown("C18.3", fs_, fs_.node, "shortest_int", f"{len(rets)} return paths")
        return
    v = rets[0].value
    items = v.items if isinstance(v, (VecV, TupleV)) and len(v.items) == 2 else None
    if items is None:
        a = v.single_atom() if isinstance(v, Form) else None
        if a and a[0] == "fn" and a[1] == "array" and isinstance(a[2][0], TupleV) and len(a[2][0].items) == 2:
            items = a[2][0].items
    if items is None:
        ctx.unknown("C18.3", fs_, rets[0].node, "shortest_int result", "not a pair")
        return
    data, pct = S(fs_.params[0]), S(fs_.params[1])
    srt = mk_fn("sort", [data])
    lag = mk_fn("int", [mk_fn("len", [srt]) * pct / 100])
    def diff_with(hi):
        return Form.atom(("idx", srt, SliceV(lag, Const(None), Const(None)))) - Form.atom(("idx", srt, SliceV(Const(None), hi, Const(None))))
    # the lag-differences sorted[lag:] - sorted[:len-lag].  Written with the upper bound -lag they are right for lag >= 1 only: for
    # lag = 0 (percent*len < 100) sorted[:-0] is EMPTY and the subtraction raises - the statement covers every percentage in (0, 100)
    cand_neg = diff_with(-lag)
    good = [diff_with(n_ - lag) for n_ in (mk_fn("len", [data]), mk_fn("len", [srt]), S(fs_.params[0] + ".size"), mk_fn("size", [data]))]
    used = [a for it_ in items if isinstance(it_, Form) for a in it_.atoms() if a[0] == "fn" and a[1] in ("min", "argmin") and a[2] and isinstance(a[2][0], Form)]
    cand = next((g for g in good if any(u[2][0] == g for u in used)), None)
    if cand is None and any(u[2][0] == cand_neg for u in used):
        ctx.violation("C18.3", fs_, rets[0].node, "shortest_int: lag-differences sorted[lag:] - sorted[:-lag]",
                      "for lag = 0 (percent*len < 100, e.g. 50 samples at 1 %) the slice [:-0] is empty and the subtraction raises ValueError: no interval is returned for small percentages")
        cand = cand_neg
    elif cand is None:
        cand = good[0]
    else:
        ctx.holds("C18.3", fs_, rets[0].node, "shortest_int: lag-differences sorted[lag:] - sorted[:len-lag]", "defined for every lag 0 .. len-1")
    lo_a = items[0].single_atom() if isinstance(items[0], Form) else None
    hi_a = items[1].single_atom() if isinstance(items[1], Form) else None
    if not (lo_a and hi_a and lo_a[0] == "idx" and hi_a[0] == "idx" and lo_a[1] == srt and hi_a[1] == srt):
        ctx.violation("C18.3", fs_, rets[0].node, "shortest_int result", "the result is not a pair of order statistics sorted[i], sorted[j] of the sorted data")
        return
    i, j = lo_a[2], hi_a[2]
    ctx.check("C18.3", isinstance(i, Form) and isinstance(j, Form) and j - i == lag, fs_, rets[0].node, f"shortest_int: upper index - lower index = {(j - i)!r}"[:200], "exactly lag = int(len*p/100) order statistics apart",
              f"the two order statistics are not `lag` apart (lag = {lag!r})")
    _lag_rounding(ctx, fs_)
    am = mk_fn("argmin", [cand])
    ok_forms = (am, mk_fn("int", [am]))
    tie_sets = [Form.atom(("idx", mk_fn("where", [mk_fn("eq", [cand, mk_fn("min", [cand])])]), Form.num(0))),
                Form.atom(("idx", mk_fn("where", [mk_fn("eq", [mk_fn("min", [cand]), cand])]), Form.num(0))),
                mk_fn("flatnonzero", [mk_fn("eq", [cand, mk_fn("min", [cand])])])]
    ia = i.single_atom() if isinstance(i, Form) else None
    if i in ok_forms:
        ctx.holds("C18.3", fs_, rets[0].node, "shortest_int: index = argmin(sorted[lag:] - sorted[:-lag])", "a minimiser of the lag-differences")
    elif ia and ia[0] == "idx" and isinstance(ia[1], Form) and any(a[0] == "fn" and a[1] == "max" for a in ia[1].atoms()) and not any(a[0] == "fn" and a[1] == "min" for a in ia[1].atoms()):
        ctx.violation("C18.3", fs_, rets[0].node, "shortest_int: index taken where the lag-difference is maximal", "the widest instead of the shortest interval is selected")
    elif ia and ia[0] == "idx" and ia[1] in tie_sets:
        ctx.holds("C18.3", fs_, rets[0].node, f"shortest_int: index = element [{ia[2]!r}] of where(diff == min(diff))"[:200], "an element of the set of exact minimisers")
    else:
        atoms = i.atoms() if isinstance(i, Form) else set()
        arith = any(a[0] == "fn" and a[1] in ("mean", "median", "sum", "average") for a in atoms)
        # any arithmetic combination of elements of the tie set (midpoint of first and last, floor-division, ...)
        ties_used = [a for a in atoms if a[0] == "idx" and a[1] in tie_sets]
        top = i.single_atom() if isinstance(i, Form) else None
        if ties_used and not (top and top[0] == "idx" and top[1] in tie_sets):
            arith = True
        wrongcand = [a for a in atoms if a[0] == "fn" and a[1] in ("argmin",)]
        if arith:
            ctx.violation("C18.3", fs_, rets[0].node, "shortest_int: index computed from the set of tied minimisers",
                          "the index is an arithmetic combination (mean / midpoint) of several minimiser indices; when the ties are not contiguous it is not itself a minimiser, so a wider interval is returned "
                          "(e.g. [0,1,2,3,4,10,20,30,31,32,33,34] at 34% gives [3, 30])")
        elif wrongcand:
            ctx.violation("C18.3", fs_, rets[0].node, f"shortest_int: index = {i!r}"[:300], f"argmin is not taken over the lag-differences sorted[lag:] - sorted[:-lag] = {cand!r}")
        elif any(a[0] == "fn" and a[1] == "argmax" for a in atoms):
            ctx.violation("C18.3", fs_, rets[0].node, "shortest_int: index = argmax(...)", "the widest instead of the shortest interval is selected")
        else:
            ctx.unknown("C18.3", fs_, rets[0].node, f"shortest_int: index {i!r}"[:300], "index selection idiom not recognised")
    check_late_binding(ctx, "C18.4", ["devices.ADC", "utils.shortest_int"])
    ctx.require_min("C18.1", 4)
    ctx.require_min("C18.2", 6)
    ctx.require_min("C18.3", 2)
