"""C19 - unit conversions, Q, number formatting, string parsing (utils.py)."""
from __future__ import annotations

import ast
from fractions import Fraction

from ..absint import Interp, State
from ..forms import Const, Form, SliceV, fpow, mk_fn
from ..rules import (PI, S, body_nodes, find_raise_guards, interp_returns, names_in, single_return)
from ..srcmodel import src_of

EXPLANATION = (
    "Algebra and finite-class rules over opticomlib/utils.py. C19.1 interprets si() on the boundary, an interior point and a point just "
    "below the next boundary of each of the 10 decades (x is only compared with the boundaries and multiplied once): printed "
    "mantissa * 10^e(prefix) = x with the mantissa in [1,1000), no gap, unbounded top decade, si(0) prints 0. C19.2 reduces db/dbm/idb/idbm "
    "to log-linear normal forms and checks the four compositions reduce to the identity, dbm=db+30, and rejection of negative input "
    "(ValueError) on the sign classes. C19.7: no conversion writes into its argument, and none that returns an array is memoised (callers would share one mutable result). C19.3 compares Q and gaus with their closed forms as polynomial normal forms. C19.4 checks the three "
    "region predicates of rcos share break points (1-+alpha)/(2T) and the value forms. C19.5 decides dec2bin's range guard on the order classes of num around "
    "2**digits-1 for three widths and checks the big-endian store order (counter or descending range). C19.6 parses the four "
    "type-inference regexes (character-class chain bool<int<float<complex, test order, fall-through None) and interprets str2array for "
    "the 5 x 5 (inferred class, dtype) table: ValueError for unmatched text, i->j before complex parsing, separators, token-wise vs "
    "digit-wise dispatch of 0/1 text, explicit dtype applied last, digit-wise conversion by parsing not by code-point arithmetic, parsed rows keep their axes (no squeeze/ravel). "
    "Decided: these structural clauses (necessary conditions); not decided: floating-point round-trips, printed precision.")
EXPLANATION += (" Added after the audit wave: C19.4 rcos allocates its result with a floating dtype of its own (an integer grid must not truncate the roll-off values); C19.6 0/1 text is read token-wise for every numeric dtype, numpy's scalar types included - one result per requested dtype (int, float, complex, np.int64, np.float64, np.complex128, np.float32, bool, None); np.issubdtype on type objects is folded by numpy's scalar hierarchy.")
EXPLANATION += (" Fourth audit wave: C19.8 the argument of the numpy logarithm in db and dbm has been made floating first (astype(float) / a constructor with a floating dtype / a product with a float constant / log10(..., dtype=float)), read from the source with local names followed: numpy chooses the precision of log10 from the argument's dtype, float16 for 8-bit integers. Also: the interpreter no longer assumes that re.search/match and similar lookups return something.")
TRUSTED = ["CPython ast", "numpy log10/power semantics", "re._parser character classes", "scipy.special.erfc"]

SI_EXP = {"f": -15, "p": -12, "n": -9, "µ": -6, "μ": -6, "u": -6, "m": -3, "": 0, "k": 3, "M": 6, "G": 9, "T": 12}


def _num(node):
    if isinstance(node, ast.Constant) and isinstance(node.value, (int, float)) and not isinstance(node.value, bool):
        return Fraction(repr(node.value)) if isinstance(node.value, float) else Fraction(node.value)
    if isinstance(node, ast.BinOp) and isinstance(node.op, ast.Pow):
        a, b = _num(node.left), _num(node.right)
        if a is not None and b is not None and b.denominator == 1:
            return a ** int(b)
    if isinstance(node, ast.UnaryOp) and isinstance(node.op, ast.USub):
        a = _num(node.operand)
        return -a if a is not None else None
    return None


def rule_si(ctx):
    """si() is interpreted on representatives of every decade class: x is touched only by order comparisons with the decade
    boundaries and by one multiplication, so the lower boundary, an interior point and a point just below the upper boundary
    decide each decade (and the boundaries decide contiguity), however the ladder is written (if-chain, table, loop)."""
    pkg = ctx.pkg
    fi = pkg.func("utils.si")
    xname = fi.params[0]

    def probe(x):
        it = Interp(pkg, param_values={xname: Form.num(x)})
        it.unroll_literal_loops = True
        outs = it.run(fi)
        return [o for o in outs if o.kind == "return"], outs

    def parse(v):
        """(mantissa, text after it) of a returned 'mantissa prefix+unit' string form"""
        if isinstance(v, Const) and isinstance(v.v, str):
            return None
        a = v.single_atom() if isinstance(v, Form) else None
        if not (a and a[0] == "fn" and a[1] == "fstr" and a[2]):
            return None
        parts = list(a[2])
        first = parts[0]
        if isinstance(first, Const):
            # literal mantissa ('0 ' + unit)
            txt = str(first.v)
            num = txt.strip().split(" ")[0]
            try:
                return Fraction(num), txt[len(num):].strip() if txt.strip() != num else ""
            except Exception:
                return None
        fa = first.single_atom() if isinstance(first, Form) else None
        if not (fa and fa[0] == "fn" and fa[1] == "fmt" and isinstance(fa[2][0], Form) and fa[2][0].rational() is not None):
            return None
        txt = str(parts[1].v) if len(parts) > 1 and isinstance(parts[1], Const) else ""
        return fa[2][0].rational(), txt.strip()
    decades = list(range(-15, 13, 3))
    for e in decades:
        ten = Fraction(10) ** e
        top = e == decades[-1]
        pts = [ten, ten * Fraction(5, 2), ten * Fraction(1999, 2)] + ([ten * 10 ** 3, ten * 10 ** 7] if top else [])
        probs, where = [], fi.node
        for x in pts:
            rets, outs = probe(x)
            if len(rets) != 1:
                probs.append(f"si({float(x):g}) has {len(rets)} return paths (decade test not decided)")
                continue
            where = rets[0].node
            if isinstance(rets[0].value, Const) and rets[0].value.v is None:
                probs.append(f"si({float(x):g}) falls through and returns None: the ladder has a gap at 1e{e}" + (" (top decade is bounded)" if top and x >= ten * 1000 else ""))
                continue
            pr = parse(rets[0].value)
            if pr is None:
                probs.append(f"si({float(x):g}) = {rets[0].value!r}: not a 'mantissa prefix+unit' string"[:200])
                continue
            mant, prefix = pr
            if prefix not in SI_EXP:
                probs.append(f"si({float(x):g}) uses '{prefix}', not an SI prefix of the documented ladder")
            elif mant * Fraction(10) ** SI_EXP[prefix] != x:
                probs.append(f"si({float(x):g}) prints mantissa {float(mant):g} with prefix '{prefix}' (1e{SI_EXP[prefix]}): that reads as {float(mant * Fraction(10) ** SI_EXP[prefix]):g}, not x")
            elif SI_EXP[prefix] != e:
                probs.append(f"si({float(x):g}) uses prefix '{prefix}' (1e{SI_EXP[prefix]}); mantissa {float(mant):g} leaves [1, 1000): decade boundary misplaced")
        cons = f"si decade [1e{e}, {'inf' if top else '1e%d' % (e + 3)})"
        if probs:
            ctx.violation("C19.1", fi, where, cons, "; ".join(probs[:2]))
        else:
            ctx.holds("C19.1", fi, where, cons, f"mantissa*1e{e} = x and mantissa in [1, 1000) at the boundary, inside and just below the next boundary")
    rets, outs = probe(Fraction(0))
    pr = parse(rets[0].value) if len(rets) == 1 else None
    okz = pr is not None and pr[0] == 0
    ctx.check("C19.1", okz, fi, rets[0].node if rets else fi.node, "si(0)", "'0 unit'", "si(0) does not print a zero mantissa")


# -- log/exp simplification used by C19.2
def expand_logs(f: Form) -> Form:
    def fn(a):
        if a[0] == "fn" and a[1] == "log10" and len(a[2]) == 1 and isinstance(a[2][0], Form):
            arg = expand_logs(a[2][0])
            if len(arg.terms) == 1:
                (m, c), = arg.terms.items()
                if c[1] == 0 and c[0] > 0:
                    tot = Form()
                    # coefficient: only exact powers of ten fold
                    k = 0
                    cc = c[0]
                    while cc >= 10 and cc % 10 == 0:
                        cc /= 10
                        k += 1
                    while cc < 1 and (cc * 10).denominator <= cc.denominator:
                        cc *= 10
                        k -= 1
                        if cc == 1:
                            break
                    if cc != 1:
                        tot = tot + Form.atom(("fn", "log10", (Form.num(cc),), ()))
                    tot = tot + Form.num(k)
                    for at, e in m:
                        if at[0] == "fn" and at[1] == "exp10":
                            tot = tot + expand_logs(at[2][0]) * Form.num(e)
                        else:
                            tot = tot + Form.atom(("fn", "log10", (Form.atom(at),), ())) * Form.num(e)
                    return tot
            return Form.atom(("fn", "log10", (arg,), ()))
        if a[0] == "fn" and a[1] == "exp10" and len(a[2]) == 1 and isinstance(a[2][0], Form):
            arg = expand_logs(a[2][0])
            # exp10(k + sum c_i*log10(y_i)) = 10^k * prod y_i^c_i
            res = Form.num(1)
            rest = Form()
            for m, c in arg.terms.items():
                if len(m) == 1 and m[0][1] == 1 and m[0][0][0] == "fn" and m[0][0][1] == "log10" and c[1] == 0:
                    res = res * fpow(m[0][0][2][0], c[0])
                else:
                    rest = rest + Form({m: c})
            return res * mk_fn("exp10", [rest])
        return None
    return f.subst(fn)


def rule_db(ctx):
    pkg = ctx.pkg
    forms = {}
    for name in ("db", "dbm", "idb", "idbm"):
        fi, it, ret = single_return(ctx, "C19.2", pkg, f"utils.{name}", assumptions={})
        if ret is None:
            # db/dbm have raise paths; single_return counts only returns, so None means really ambiguous
            return
        v = ret.value
        if not isinstance(v, Form):
            ctx.unknown("C19.2", fi, ret.node, None, "return value is not an arithmetic form")
            return
        forms[name] = (fi, ret.node, expand_logs(v))
    x = S("x")
    L = lambda f: Form.atom(("fn", "log10", (f,), ()))
    oracle = {
        "db": 10 * L(x),
        "dbm": 10 * L(x) + 30,
        "idb": mk_fn("exp10", [x / 10]),
        "idbm": mk_fn("exp10", [x / 10 - 3]),
    }
    for name, (fi, node, f) in forms.items():
        pname = fi.params[0]
        f = f.subst(lambda a: x if a == ("sym", pname) else None)
        forms[name] = (fi, node, f)
        ctx.check("C19.2", f == oracle[name], fi, node, f"{name}(x) = {f!r}", f"equals {oracle[name]!r}",
                  f"normal form {f!r} differs from the documented {oracle[name]!r}")
    # compositions reduce to the identity (decided on the code's own forms)
    def compose(outer, inner):
        fo, fi_ = forms[outer][2], forms[inner][2]
        return expand_logs(fo.subst(lambda a: fi_ if a == ("sym", "x") else None))
    for outer, inner in (("idb", "db"), ("db", "idb"), ("idbm", "dbm"), ("dbm", "idbm")):
        comp = compose(outer, inner)
        fi, node, _ = forms[outer]
        ctx.check("C19.2", comp == x, fi, node, f"{outer}({inner}(x))", "reduces to x",
                  f"{outer}({inner}(x)) reduces to {comp!r}, not x")
    # negative input -> ValueError (decided on the sign classes of a scalar input; arrays go through the same comparison)
    from ..rules import Reject, check_range_guard
    for name in ("db", "dbm"):
        fi = pkg.func(f"utils.{name}")
        check_range_guard(ctx, "C19.2", fi, fi.params[0], Reject(lambda x: x < 0, [0]), "ValueError", f"{name}: negative input rejected", accept_sample=[0, 1, Fraction(1, 2)], integer=False)


def rule_q_gaus(ctx):
    pkg = ctx.pkg
    fi, it, ret = single_return(ctx, "C19.3", pkg, "utils.Q")
    if ret is not None:
        x = S(fi.params[0])
        oracle = Form.num(Fraction(1, 2)) * mk_fn("erfc", [x / fpow(Form.num(2), Fraction(1, 2))])
        ctx.check("C19.3", ret.value == oracle, fi, ret.node, f"Q(x) = {ret.value!r}", "equals erfc(x/sqrt2)/2",
                  f"differs from 0.5*erfc(x/sqrt(2)) = {oracle!r}")
    fi, it, ret = single_return(ctx, "C19.3", pkg, "utils.gaus", assumptions={"mu": "notnone", "std": "notnone"})
    if ret is not None:
        x, mu, sd = S("x"), S("mu"), S("std")
        oracle = mk_fn("exp", [-(x - mu) * (x - mu) / (2 * sd * sd)]) / (sd * fpow(2 * PI, Fraction(1, 2)))
        ctx.check("C19.3", ret.value == oracle, fi, ret.node, f"gaus = {ret.value!r}", "equals the normal pdf",
                  f"differs from exp(-(x-mu)^2/(2 std^2))/(std*sqrt(2 pi)) = {oracle!r}")


def rule_rcos(ctx):
    pkg = ctx.pkg
    fi = pkg.func("utils.rcos")
    it = Interp(pkg)
    it.run(fi)
    env = {}
    for f, stmt, name, val, conds, depth in it.assign_log:
        if depth == 0 and name not in env:
            env[name] = (val, stmt)
    x, al, T = S("x"), S("alpha"), S("T")
    ax = mk_fn("abs", [x])
    b1 = (1 - al) / (2 * T)
    b2 = (1 + al) / (2 * T)
    want = {
        "first_condition": mk_fn("le", [ax, b1]),
        "second_condition": mk_fn("band", [mk_fn("gt", [ax, b1]), mk_fn("le", [ax, b2])]),
        "third_condition": mk_fn("gt", [ax, b2]),
    }
    got_any = False
    for nm, w in want.items():
        if nm in env:
            got_any = True
            v, stmt = env[nm]
            ctx.check("C19.4", v == w, fi, stmt, f"{nm} = {v!r}", "break points (1-+alpha)/(2T) on |x|",
                      f"region predicate differs from {w!r}: the three regions no longer partition the axis at (1-+alpha)/(2T)")
    if not got_any:
        ctx.unknown("C19.4", fi, fi.node, "rcos regions", "region predicates not found as locals")
        return
    # middle-region value form: 0.5*(1+cos(pi*T/alpha*(|x|-(1-alpha)/(2T))))
    mid = Form.num(Fraction(1, 2)) * (1 + mk_fn("cos", [PI * T / al * (ax - b1)]))
    seen = 0
    for n in body_nodes(fi):
        if isinstance(n, ast.Call) and src_of(n.func) in ("np.cos", "numpy.cos", "cos"):
            seen += 1
    vals = []
    for rec in it.calls:
        if rec.callee in ("numpy.cos", "math.cos"):
            vals.append(rec)
    for rec in vals:
        arg = rec.args[0]
        if isinstance(arg, Form):
            # array branch indexes x with the mask: strip the index
            def strip(a):
                if a[0] == "idx" and isinstance(a[1], Form) and a[1].sym_name() == "x":
                    return x
                if a[0] == "idx" and isinstance(a[1], Form) and isinstance(a[2], Form):
                    ia = a[2].single_atom()
                    if ia is not None and ia[0] == "fn" and ia[1] in ("band", "and", "gt", "ge", "le", "lt"):
                        return a[1].subst(strip)      # V[mask]: the value restricted to the region selected by a boolean mask
                return None
            arg2 = arg.subst(strip)
            w = PI * T / al * (ax - b1)
            ctx.check("C19.4", arg2 == w, fi, rec.node, f"cos argument {arg2!r}", "pi*T/alpha*(|x|-(1-alpha)/(2T))",
                      f"roll-off argument differs from {w!r}")
    if not vals:
        ctx.unknown("C19.4", fi, fi.node, "rcos roll-off", "no cos() call found")
    # the array branch stores the roll-off values (fractions) into a result array: one allocated "like" the frequency grid takes the
    # grid's dtype, and an integer-typed grid (a list of ints, np.arange) truncates 0.5 at 1/(2T) to 0
    for n in body_nodes(fi):
        if isinstance(n, ast.Call) and src_of(n.func).split(".")[-1] in ("zeros_like", "empty_like", "ones_like", "full_like") and n.args:
            has_dtype = any(k.arg == "dtype" for k in n.keywords) or len(n.args) >= (3 if src_of(n.func).endswith("full_like") else 2)
            ctx.check("C19.4", has_dtype, fi, n, f"rcos result buffer: {src_of(n)}", "floating dtype whatever the dtype of the grid",
                      "the result array inherits the dtype of `x`: for an integer-typed frequency grid the roll-off values are truncated (rcos([0,1,2,3,4], 0.5, 0.25)[2] is 0, not 1/2)")


def rule_log_precision(ctx):
    """C19.8: idb(db(x)) = x and dbm(x) = db(x) + 30 for arrays too: numpy picks the loop of log10 by the dtype of its argument - an 8-bit
    integer array is logged in float16, a 16-bit one in float32 - so the value handed to log10 must have been made floating first (an
    astype / a constructor with a floating dtype / a product or quotient with a float constant / float()), or log10 is told its dtype.
    Read from the source: the argument of every log10 call, a local name followed to all its assignments in the function"""
    mod_floats, log_alias = set(), set()
    floats = ("float", "np.float64", "numpy.float64", "np.double", "np.longdouble", "np.float_", "'float64'", '"float64"', "'float'", '"float"', "'f8'", "'d'")

    def floaty(e, depth=0):
        for n in ast.walk(e):
            if isinstance(n, ast.Call):
                f = src_of(n.func)
                if f.endswith(".astype") and n.args and (src_of(n.args[0]) in floats or "result_type" in src_of(n.args[0])):
                    return True
                if f.split(".")[-1] in ("array", "asarray", "asanyarray", "asfarray", "ascontiguousarray") and (
                        f.endswith("asfarray") or any(k.arg == "dtype" and src_of(k.value) in floats for k in n.keywords) or (len(n.args) >= 2 and src_of(n.args[1]) in floats)):
                    return True
                if f == "float":
                    return True
                if isinstance(n.func, ast.Name) and depth < 2:
                    # a private helper of the module that does the conversion (`x = _float_if_integer(np.array(x))`)
                    try:
                        helper = ctx.pkg.func("utils." + n.func.id)
                    except Exception:
                        helper = None
                    if helper is not None and any(isinstance(r_, ast.Return) and r_.value is not None and floaty(r_.value, depth + 1) for r_ in ast.walk(helper.node)):
                        return True
            if isinstance(n, ast.BinOp) and isinstance(n.op, (ast.Mult, ast.Div)) and any((isinstance(o, ast.Constant) and isinstance(o.value, float)) or
                                                                                        (isinstance(o, ast.Name) and o.id in mod_floats) for o in (n.left, n.right)):
                return True
        return False
    # module-level names: a float constant (`_MW_PER_W = 1e3`) and an alias of the logarithm (`_log10 = np.log10`)
    for n in ctx.pkg.module("utils").tree.body:
        if isinstance(n, ast.Assign) and len(n.targets) == 1 and isinstance(n.targets[0], ast.Name):
            if isinstance(n.value, ast.Constant) and isinstance(n.value.value, float):
                mod_floats.add(n.targets[0].id)
            if isinstance(n.value, ast.Attribute) and n.value.attr in ("log10", "log", "log2") and src_of(n.value).split(".")[0] in ("np", "numpy"):
                log_alias.add(n.targets[0].id)
    for q in ("utils.db", "utils.dbm"):
        fi = ctx.pkg.func(q)
        assigns = {}
        for n in ast.walk(fi.node):
            if isinstance(n, ast.Assign) and len(n.targets) == 1 and isinstance(n.targets[0], ast.Name):
                assigns.setdefault(n.targets[0].id, []).append(n.value)
        calls = [n for n in ast.walk(fi.node) if isinstance(n, ast.Call) and n.args and (
                 (src_of(n.func).split(".")[-1] in ("log10", "log", "log2") and src_of(n.func).split(".")[0] in ("np", "numpy")) or (isinstance(n.func, ast.Name) and n.func.id in log_alias))]
        if not calls:
            ctx.unknown("C19.8", fi, fi.node, f"{fi.name}: logarithm", "no numpy logarithm call found")
            continue
        for c in calls:
            ok = any(k.arg == "dtype" and src_of(k.value) in floats for k in c.keywords) or floaty(c.args[0])
            seen = set()
            work = [x.id for x in ast.walk(c.args[0]) if isinstance(x, ast.Name)]
            while work and not ok:
                nm = work.pop()
                if nm in seen:
                    continue
                seen.add(nm)
                for v in assigns.get(nm, []):
                    if floaty(v):
                        ok = True
                    work.extend(x.id for x in ast.walk(v) if isinstance(x, ast.Name))
            ctx.check("C19.8", ok, fi, c, f"{fi.name}: the argument of the logarithm is floating whatever the dtype of the input", "made floating before the logarithm",
                      f"`{src_of(c)}` is applied to the input array in its own dtype: numpy logs an 8-bit integer array in float16 and a 16-bit one in float32 - "
                      "db(np.array([127, 200, 255], np.uint8)) = [21.03, 23., 24.06] (float16), idb(db(x)) = [126.94, 199.9, 254.9], dbm(x) - db(x) = 30.007")


def rule_dec2bin(ctx):
    pkg = ctx.pkg
    fi = pkg.func("utils.dec2bin")
    num, digits = fi.params[0], fi.params[1]
    # guard: num > 2**digits - 1 -> ValueError; num and digits are compared with each other only through 2**digits-1, so
    # the order classes of num around that limit decide it for each width
    from ..rules import Reject, check_range_guard
    for d in (1, 3, 8):
        lim = 2 ** d - 1
        check_range_guard(ctx, "C19.5", fi, num, Reject(lambda x, L=lim: x > L, [lim]), "ValueError", f"dec2bin range guard: num > 2**{d}-1", accept_sample=[0, 1, lim],
                          base={digits: Form.num(d)}, integer=True)
    loop = next((n for n in fi.node.body if isinstance(n, (ast.While, ast.For))), None)
    if loop is None:
        # or the closed form: bit i (most significant first) of num is (num >> (digits-1-i)) & 1
        it_ = Interp(pkg)
        it_.keep_astype = True
        rets_ = [o for o in it_.run(fi) if o.kind == "return"]
        shifts = Form.atom(("idx", mk_fn("arange", [S(digits)]), SliceV(Const(None), Const(None), Form.num(-1))))
        bits_ = mk_fn("band", [mk_fn("rshift", [S(num), shifts]), Form.num(1)])
        got_ = rets_[0].value if len(rets_) == 1 else None
        ga_ = got_.single_atom() if isinstance(got_, Form) else None
        if ga_ and ga_[0] == "fn" and ga_[1] == "astype" and ga_[2] and isinstance(ga_[2][0], Form):
            got_ = ga_[2][0]           # cast of 0/1 values to the output dtype
        if isinstance(got_, Form) and got_ == bits_:
            ctx.holds("C19.5", fi, rets_[0].node, "dec2bin = (num >> arange(digits)[::-1]) & 1", "big-endian bits by shift and mask")
            ctx.holds("C19.5", fi, rets_[0].node, "dec2bin: most significant bit first", "shift counts digits-1 ... 0")
            return
        ctx.unknown("C19.5", fi, fi.node, "dec2bin loop", "conversion loop not found")
        return
    # loop: bits[i] = num % 2 ; num //= 2, with i running from digits-1 downward (explicit counter or reversed range)
    store = halve = dec = None
    for n in ast.walk(loop):
        if isinstance(n, ast.Assign) and isinstance(n.targets[0], ast.Subscript):
            store = n
        if isinstance(n, ast.AugAssign) and isinstance(n.target, ast.Name):
            if n.target.id == num and ((isinstance(n.op, ast.FloorDiv) and _num(n.value) == 2) or (isinstance(n.op, ast.RShift) and _num(n.value) == 1)):
                halve = n
            elif isinstance(n.op, ast.Sub) and _num(n.value) == 1:
                dec = n
        if isinstance(n, ast.Assign) and isinstance(n.targets[0], ast.Name) and n.targets[0].id == num:
            if src_of(n.value).replace(" ", "") in (f"{num}//2", f"{num}>>1"):
                halve = n
    inc = [n for n in ast.walk(loop) if isinstance(n, ast.AugAssign) and isinstance(n.target, ast.Name) and isinstance(n.op, ast.Add) and _num(n.value) == 1 and n.target.id != num]
    idxname = src_of(store.targets[0].slice) if store is not None else None
    if store is not None and halve is not None and dec is None and inc and idxname == inc[0].target.id:
        ctx.violation("C19.5", fi, store, f"{src_of(store)}; {src_of(halve)}; {src_of(inc[0])}", "the least significant bit is stored first and the index increases: the expansion is little-endian, not big-endian")
        return
    # index progression: digits-1, digits-2, ... either by an explicit counter or as the target of a descending range
    down = None
    if isinstance(loop, ast.For) and isinstance(loop.target, ast.Name) and loop.target.id == idxname:
        it = src_of(loop.iter).replace(" ", "")
        if it in (f"range({digits}-1,-1,-1)", f"reversed(range({digits}))", f"range({digits})[::-1]"):
            down = "range"
        elif it in (f"range({digits})", f"range(0,{digits})", f"range(0,{digits},1)"):
            ctx.violation("C19.5", fi, store, f"for {idxname} in {src_of(loop.iter)}: {src_of(store)}", "the least significant bit is stored first and the index increases: the expansion is little-endian, not big-endian")
            return
    elif dec is not None and dec.target.id == idxname:
        init = None
        for n in fi.node.body:
            if isinstance(n, ast.Assign) and isinstance(n.targets[0], ast.Name) and n.targets[0].id == idxname:
                init = n
        if init is not None and src_of(init.value).replace(" ", "") in (f"{digits}-1", f"-1+{digits}"):
            down = "counter"
    if store is None or halve is None or (down is None and dec is None and not isinstance(loop, ast.For)):
        ctx.unknown("C19.5", fi, loop, "dec2bin loop", "store / halving / index decrement idiom not recognised")
        return
    rhs_ok = src_of(store.value).replace(" ", "") in (f"{num}%2", f"{num}&1")
    order_ok = store.lineno < halve.lineno
    ctx.check("C19.5", rhs_ok and down is not None and order_ok, fi, store,
              f"{src_of(store)}; {src_of(halve)}; index from {digits}-1 downward ({down})", "LSB stored at index digits-1 downward (big-endian)",
              "loop does not store num%2 from index digits-1 downward before halving: expansion is not big-endian")


def _class_chars(pattern):
    import re._parser as rp  # type: ignore
    p = rp.parse(pattern)
    items = list(p)
    chars = set()
    anchored_start = anchored_end = False
    for op, av in items:
        name = str(op)
        if name == "AT":
            if str(av) == "AT_BEGINNING":
                anchored_start = True
            if str(av) == "AT_END":
                anchored_end = True
        elif name in ("MAX_REPEAT", "MIN_REPEAT"):
            lo, hi, sub = av
            for sop, sav in sub:
                if str(sop) == "IN":
                    for iop, iav in sav:
                        if str(iop) == "LITERAL":
                            chars.add(chr(iav))
                        elif str(iop) == "RANGE":
                            for c in range(iav[0], iav[1] + 1):
                                chars.add(chr(c))
                        elif str(iop) == "CATEGORY" and str(iav) == "CATEGORY_SPACE":
                            chars |= set(" \t\n\r\f\v")
                        else:
                            return None
                else:
                    return None
        else:
            return None
    return chars, anchored_start and anchored_end


def rule_str2array(ctx):
    pkg = ctx.pkg
    fi = pkg.func("utils._get_type_array_from_str")
    rows = []
    body = [n for n in fi.node.body if not (isinstance(n, ast.Expr) and isinstance(n.value, ast.Constant))]
    # the result variable when the chain assigns and a single `return <name>` follows
    retname = body[-1].value.id if body and isinstance(body[-1], ast.Return) and isinstance(body[-1].value, ast.Name) else None
    fall_through = None   # (node, source of the value produced when no pattern matches)

    def result_of(stmts):
        for s_ in stmts:
            if isinstance(s_, ast.Return):
                return src_of(s_.value) if s_.value is not None else "None"
            if retname and isinstance(s_, ast.Assign) and len(s_.targets) == 1 and isinstance(s_.targets[0], ast.Name) and s_.targets[0].id == retname:
                return src_of(s_.value)
        return None

    def is_match(t):
        return isinstance(t, ast.Call) and src_of(t.func) in ("re.match", "re.fullmatch") and t.args and isinstance(t.args[0], ast.Constant) and isinstance(t.args[0].value, str)

    def walk_chain(stmts):
        nonlocal fall_through
        for n in stmts:
            if isinstance(n, ast.If) and is_match(n.test):
                r = result_of(n.body)
                if r is not None:
                    rows.append((n, n.test.args[0].value, r, src_of(n.test.func)))
                if n.orelse:
                    if len(n.orelse) == 1 and isinstance(n.orelse[0], ast.If):
                        walk_chain(n.orelse)
                    else:
                        r2 = result_of(n.orelse)
                        if r2 is not None:
                            fall_through = (n.orelse[0], r2)
            elif isinstance(n, ast.Return) and not (retname and isinstance(n.value, ast.Name) and n.value.id == retname):
                fall_through = (n, src_of(n.value) if n.value is not None else "None")
    walk_chain(body)
    if len(rows) != 4:
        # the chain may be a table of (pattern, type) rows scanned by a loop: read the rows off the interpreted outcomes
        from ..absint import ClassRef
        itx = Interp(pkg)
        itx.keep_cond_forms = True
        rows2, ft2 = [], None
        for o in itx.run(fi):
            if o.kind != "return":
                continue
            hit = None
            for txt, pol in reversed(o.conds):
                cf = itx.cond_forms.get(txt)
                ca = cf.single_atom() if isinstance(cf, Form) else None
                if pol and ca and ca[0] == "fn" and ca[1] in ("re.match", "re.fullmatch") and ca[2] and isinstance(ca[2][0], Const):
                    hit = (ca[2][0].v, ca[1])
                    break
            val = o.value.name.split(".")[-1] if isinstance(o.value, ClassRef) else ("None" if isinstance(o.value, Const) and o.value.v is None else repr(o.value))
            if hit is not None:
                rows2.append((o.node, hit[0], val, hit[1]))
            else:
                ft2 = (o.node, val)
        if len(rows2) == 4:
            rows, fall_through = rows2, ft2
        elif len(rows2) == 0:
            # ... or a first-match expression next((type for pattern, type in TABLE if re.match(pattern, s)), None): a chain of
            # conditional values ifexp(match_1, type_1, ifexp(match_2, type_2, ... fall-through))
            outs_ = [o for o in Interp(pkg).run(fi) if o.kind == "return"]
            if len(outs_) == 1:
                def show(v_):
                    return v_.name.split(".")[-1] if isinstance(v_, ClassRef) else ("None" if isinstance(v_, Const) and v_.v is None else repr(v_))
                cur, rows3 = outs_[0].value, []
                while isinstance(cur, Form):
                    ca = cur.single_atom()
                    if not (ca and ca[0] == "fn" and ca[1] == "ifexp" and len(ca[2]) == 3):
                        break
                    ma = ca[2][0].single_atom() if isinstance(ca[2][0], Form) else None
                    if not (ma and ma[0] == "fn" and ma[1] in ("re.match", "re.fullmatch") and ma[2] and isinstance(ma[2][0], Const)):
                        rows3 = []
                        break
                    rows3.append((outs_[0].node, ma[2][0].v, show(ca[2][1]), ma[1]))
                    cur = ca[2][2]
                if len(rows3) == 4:
                    rows, fall_through = rows3, (outs_[0].node, show(cur))
    if len(rows) != 4:
        ctx.unknown("C19.6", fi, fi.node, "type-inference regexes", f"expected 4 regex branches, found {len(rows)}")
        return
    expect = ["bool", "int", "float", "complex"]
    prev = None
    SEP = set(",; \t\n\r\f\v")
    need = {
        "bool": set("01") | SEP,
        "int": set("0123456789+-") | SEP,
        "float": set("0123456789+-.") | SEP,
        "complex": set("0123456789+-.ij") | SEP,
    }
    for (n, pat, ret, fn), exp in zip(rows, expect):
        cc = _class_chars(pat)
        cons = f"regex for {exp}: {pat}"
        if ret != exp:
            ctx.violation("C19.6", fi, n, cons, f"branch order: returns {ret}, expected {exp} (narrowest type first)")
            continue
        if cc is None:
            ctx.unknown("C19.6", fi, n, cons, "regex is not an anchored single character class")
            continue
        chars, anchored = cc
        if not anchored and fn != "re.fullmatch":
            ctx.violation("C19.6", fi, n, cons, "pattern not anchored at both ends: text with other characters would match")
        elif chars != need[exp]:
            extra = "".join(sorted(chars - need[exp]))
            miss = "".join(sorted(need[exp] - chars))
            ctx.violation("C19.6", fi, n, cons, f"character class differs from the documented alphabet (extra {extra!r}, missing {miss!r})")
        elif prev is not None and not prev < chars:
            ctx.violation("C19.6", fi, n, cons, "classes do not form the chain bool<int<float<complex")
        else:
            ctx.holds("C19.6", fi, n, cons, f"{len(chars)} characters, anchored")
        prev = chars
    last = fall_through[0] if fall_through else fi.node.body[-1]
    ctx.check("C19.6", fall_through is not None and fall_through[1] == "None", fi, last, "fall-through returns None",
              "unmatched text yields None", "fall-through of the regex chain does not return None")
    # str2array, interpreted for every (inferred class, requested dtype) pair: the inferred class and dtype are only compared with
    # the five type objects, so the 5 x 5 table is exhaustive.  Decided on the value forms of the returned array.
    from ..absint import ClassRef
    from ..forms import contains_atom
    f2 = pkg.func("utils.str2array")
    sname, dname = f2.params[0], f2.params[1]
    infer = mk_fn("_get_type_array_from_str", [S(sname)])

    def run_case(kind, dt):
        it = Interp(pkg, param_values={dname: Const(None) if dt is None else ClassRef(dt)}, valuation=[(infer, ClassRef(kind) if kind else Const(None))],
                    no_inline=("_get_type_array_from_str",))
        it.keep_astype = True
        outs = it.run(f2)
        return [o for o in outs if o.kind == "return"], outs

    def has(v, pred):
        return isinstance(v, Form) and contains_atom(v, pred)
    is_resplit = lambda a: a[0] == "fn" and a[1] == "re.split"
    is_replace_ij = lambda a: a[0] == "meth" and a[2] == "replace" and len(a[3]) == 2 and a[3][0] == Const("i") and a[3][1] == Const("j")
    is_listchars = lambda a: a[0] == "fn" and a[1] == "list"
    rets, outs = run_case(None, None)
    ctx.check("C19.6", not rets and bool(outs) and outs[-1].exc == "ValueError", f2, outs[-1].node if outs else f2.node, "str2array: invalid characters", "text matching no class raises ValueError",
              "text matching no class does not reach `raise ValueError`")
    rets, outs = run_case("complex", None)
    okc = len(rets) == 1 and has(rets[0].value, is_replace_ij) and has(rets[0].value, is_resplit)
    ctx.check("C19.6", okc, f2, rets[0].node if rets else f2.node, "str2array: i -> j", "imaginary unit i rewritten to j before token-wise parsing",
              "no replace('i','j') before complex parsing: 'i' as imaginary unit is not accepted")
    # separators, read off the forms of the numeric parse
    seps_seen = 0
    for kind in ("int", "float", "complex"):
        rets, outs = run_case(kind, None)
        if len(rets) != 1 or not isinstance(rets[0].value, Form):
            ctx.unknown("C19.6", f2, f2.node, f"str2array [{kind}]", f"{len(rets)} return paths")
            continue
        v = rets[0].value
        pats = {a[2][0].v for a in v.atoms() if is_resplit(a) and a[2] and isinstance(a[2][0], Const)}
        rowseps = {a[3][0].v for a in v.atoms() if a[0] == "meth" and a[2] == "split" and len(a[3]) == 1 and isinstance(a[3][0], Const)}
        seps_seen += 1
        ctx.check("C19.6", pats == {r"[,\s]+"}, f2, rets[0].node, f"str2array [{kind}]: element separator pattern(s) {sorted(pats)}", "elements split on commas/whitespace",
                  f"element separator pattern {sorted(pats)} is not [,\\s]+")
        ctx.check("C19.6", rowseps == {";"}, f2, rets[0].node, f"str2array [{kind}]: row separator(s) {sorted(rowseps)}", "rows split on ';'", f"row separator {sorted(rowseps)} is not ';'")
    if not seps_seen:
        ctx.unknown("C19.6", f2, f2.node, "str2array: element separators", "numeric parse not interpreted")
    # rows -> axes: one row gives a 1-D array, several rows a 2-D one, whatever their length.  An axis-dropping call on the parsed
    # array (squeeze / ravel / flatten / reshape(-1)) makes a single-column text ('7;-4') one-dimensional: it is no longer inverted
    drops = lambda a: (a[0] == "fn" and a[1].split(".")[-1] in ("squeeze", "ravel", "flatten")) or (a[0] == "meth" and a[2] in ("squeeze", "ravel", "flatten"))
    for kind in ("bool", "int", "float", "complex"):
        rets, outs = run_case(kind, None)
        if len(rets) != 1 or not isinstance(rets[0].value, Form):
            continue
        bad = [a for a in rets[0].value.atoms() if drops(a)]
        ctx.check("C19.6", not bad, f2, rets[0].node, f"str2array [{kind}]: the parsed rows keep their axes", "1 row -> 1-D, several rows -> 2-D (no squeeze/ravel of the result)",
                  f"the parsed array goes through {bad[0][1] if bad and bad[0][0] == 'fn' else (bad[0][2] if bad else '')}(): every axis of length one is dropped, so an N x 1 text (one element per row) comes back one-dimensional")
    # text made of 0/1 digits: token-wise for every numeric dtype, digit-by-digit otherwise
    for dt, token_wise in (("int", True), ("float", True), ("complex", True), ("numpy.int64", True), ("numpy.float64", True), ("numpy.complex128", True), ("numpy.float32", True),
                           ("bool", False), (None, False)):
        rets, outs = run_case("bool", dt)
        label = f"str2array: 0/1 text with dtype={dt}"
        if len(rets) != 1 or not isinstance(rets[0].value, Form):
            ctx.unknown("C19.6", f2, f2.node, label, f"{len(rets)} return paths")
            continue
        v = rets[0].value
        tw, dw = has(v, is_resplit), has(v, is_listchars)
        if tw and dw:
            # both parsers occur among the alternatives of the result: something other than the requested dtype (a test on the text)
            # decides which one reads it
            ctx.violation("C19.6", f2, rets[0].node, label,
                          f"with dtype {dt} the text reaches the token-wise parser on some paths and the digit-by-digit parser on others: the choice depends on a condition that is not the "
                          "requested dtype, so some 0/1 texts are read the wrong way for it (a text whose rows hold one multi-digit token each, '101' or '10;11', read digit by digit "
                          "under dtype=int: [1, 0, 1] instead of [101])")
            continue
        if tw == dw:
            ctx.unknown("C19.6", f2, rets[0].node, label, "parser not identified (token-wise split / list of characters)")
            continue
        ctx.check("C19.6", tw == token_wise, f2, rets[0].node, label, "token-wise for a numeric dtype, digit by digit for bool / none",
                  f"dtype {dt} is routed to the {'token-wise' if tw else 'digit-by-digit'} parser: text made of 0/1 digits must be read token-wise for every numeric dtype (int, float, complex and numpy's scalar "
                  "types: np.int64 is not the builtin int, so `dtype == int` misses it and '1 0 1 10' comes back as five digits) and digit by digit otherwise")
    digitwise_validation(ctx, "C19.6")
    # an explicit dtype is applied to the parsed array last; none leaves the parsed array as it is
    ok = True
    why = ""
    for kind in ("bool", "int", "complex"):
        base_rets, _ = run_case(kind, None)
        for dt in ("int", "float", "complex", "bool"):
            rets, _ = run_case(kind, dt)
            if len(rets) != 1 or not isinstance(rets[0].value, Form):
                ok, why = False, f"[{kind}, dtype={dt}]: {len(rets)} return paths"
                continue
            a = rets[0].value.single_atom()
            if not (a and a[0] == "fn" and a[1] == "astype" and len(a[2]) == 2 and a[2][1] == ClassRef(dt)):
                ok, why = False, f"[{kind} text, dtype={dt}]: result is not <parsed>.astype(dtype)"
    last = f2.node.body[-1]
    ctx.check("C19.6", ok, f2, last, "str2array: explicit dtype applied last", "result = parsed.astype(dtype) for every class of text", "explicit dtype is not applied to the parsed array at the end " + why)


def rule_pure(ctx):
    """the conversions return new values: none of them writes into its argument (an in-place shift of the caller's array makes
    `dbm(idbm(y))` differ from `y` although the returned numbers are right)"""
    from ..effects import Effects
    eff = Effects(ctx.pkg)
    for name in ("db", "dbm", "idb", "idbm", "Q", "gaus", "rcos", "dec2bin", "str2array", "si"):
        fi = ctx.pkg.func(f"utils.{name}")
        sm = eff.sum[fi.qualname]
        bad = {k: n for k, n in sm.mutates.items() if k[0] in fi.params}
        if sm.memoised is not None:
            ctx.violation("C19.7", fi, fi.node, f"{name} is memoised ({src_of(sm.memoised)})", "a cached conversion hands the same mutable result object to every caller with equal arguments: "
                          "one caller's in-place edit (or the cache's identity) changes what the next call returns")
        elif bad:
            k, n = next(iter(bad.items()))
            ctx.violation("C19.7", fi, n, f"{name}: writes into its argument `{k[0]}{k[1]}`", f"`{src_of(n)[:120]}` modifies the caller's array in place: the value handed in is no longer the value the "
                          "identities (round trips, dbm = db + 30) are stated for, and a second call gives a different result")
        else:
            ctx.holds("C19.7", fi, fi.node, f"{name}: argument left unchanged", "no in-place write to a parameter (effect summary)")


def digitwise_validation(ctx, rule):
    """The recogniser admits every whitespace character (\\s) in 0/1 text but the parser removes only ' ' and ','; what is left
    besides the digits (tab, newline, ...) has to be *rejected* by the element conversion.  Converting the characters as strings
    (np.array(list(text)).astype(T), int(c)) parses each one and raises ValueError on a non-digit; arithmetic on code points
    (frombuffer/encode/ord/view) maps any byte to a number and accepts it silently."""
    from ..absint import ClassRef
    pkg = ctx.pkg
    f2 = pkg.func("utils.str2array")
    infer = mk_fn("_get_type_array_from_str", [S(f2.params[0])])
    it = Interp(pkg, param_values={f2.params[1]: Const(None)}, valuation=[(infer, ClassRef("bool"))], no_inline=("_get_type_array_from_str",))
    it.keep_astype = True
    rets = [o for o in it.run(f2) if o.kind == "return"]
    if len(rets) != 1 or not isinstance(rets[0].value, Form):
        ctx.unknown(rule, f2, f2.node, "str2array: digit-by-digit conversion of 0/1 text", f"{len(rets)} return paths")
        return
    v = rets[0].value
    a = v.single_atom()
    alts = list(a[2]) if a and a[0] == "phi" else [v]
    CODEPOINT_FN = {"frombuffer", "fromstring", "ord", "numpy.frombuffer", "numpy.fromstring"}
    bad, good = [], 0
    for alt in alts:
        ats = alt.atoms() if isinstance(alt, Form) else []
        cp = [x for x in ats if (x[0] == "fn" and x[1] in CODEPOINT_FN) or (x[0] == "meth" and x[2] in ("encode", "view", "tobytes"))]
        parses = [x for x in ats if x[0] == "fn" and x[1] in ("list", "int") ]
        conv = [x for x in ats if x[0] == "fn" and x[1] in ("astype", "int", "array")]
        if cp:
            bad.append(cp[0])
        elif parses and conv:
            good += 1
    if bad:
        what = bad[0][1] if bad[0][0] == "fn" else bad[0][2]
        ctx.violation(rule, f2, rets[0].node, f"str2array: digit-by-digit conversion uses `{what}`",
                      "the characters of 0/1 text are turned into numbers by arithmetic on their code points: a tab or newline (admitted by the \\s of the recogniser, "
                      "not removed with the spaces and commas) becomes a non-zero value instead of raising ValueError, so text with other characters is accepted as bits")
    elif good == len(alts):
        ctx.holds(rule, f2, rets[0].node, "str2array: digit-by-digit conversion parses each character", "string elements converted by astype/int: a non-digit raises ValueError")
    else:
        ctx.unknown(rule, f2, rets[0].node, "str2array: digit-by-digit conversion of 0/1 text", "conversion idiom not recognised as parsing (astype/int of string elements) nor as code-point arithmetic")


def run(ctx):
    rule_pure(ctx)
    rule_si(ctx)
    rule_db(ctx)
    rule_q_gaus(ctx)
    rule_rcos(ctx)
    rule_dec2bin(ctx)
    rule_str2array(ctx)
    rule_log_precision(ctx)
    ctx.require_min("C19.8", 2)
    ctx.require_min("C19.1", 11)
    ctx.require_min("C19.2", 10)
    ctx.require_min("C19.3", 2)
    ctx.require_min("C19.5", 2)
    ctx.require_min("C19.6", 9)
    ctx.require_min("C19.7", 10)
