"""C19 - unit conversions, Q, number formatting, string parsing (utils.py)."""
from __future__ import annotations

import ast
from fractions import Fraction

from ..absint import Interp, State
from ..forms import Const, Form, fpow, mk_fn
from ..rules import (PI, S, body_nodes, find_raise_guards, interp_returns, names_in, single_return)
from ..srcmodel import src_of

EXPLANATION = (
    "Static table/algebra rules over opticomlib/utils.py. C19.1 reads every branch of si() as (lo, hi, scale, prefix) and "
    "checks scale*10^e(prefix)=1, lo=10^e, hi=10^(e+3) and contiguity of the ladder. C19.2 reduces db/dbm/idb/idbm to "
    "log-linear normal forms and checks the four compositions reduce to the identity, dbm=db+30, and the negative-input "
    "ValueError guards. C19.3 compares Q and gaus with their closed forms as polynomial normal forms. C19.4 checks the three "
    "region predicates of rcos share break points (1-+alpha)/(2T) and the value forms. C19.5 checks dec2bin's range guard "
    "and big-endian store order. C19.6 parses the four type-inference regexes and checks the character-class chain "
    "bool<int<float<complex, test order, the i->j rewrite, the separators and the ValueError fall-through. "
    "Decided: these structural clauses (necessary conditions); not decided: floating-point round-trips, printed precision.")
TRUSTED = ["CPython ast", "numpy log10/power semantics", "re._parser character classes", "scipy.special.erfc"]

SI_EXP = {"f": -15, "p": -12, "n": -9, "µ": -6, "μ": -6, "u": -6, "m": -3, "": 0, "k": 3, "M": 6, "G": 9, "T": 12}


def _num(node):
    if isinstance(node, ast.Constant) and isinstance(node.value, (int, float)) and not isinstance(node.value, bool):
        return Fraction(repr(node.value)) if isinstance(node.value, float) else Fraction(node.value)
    if isinstance(node, ast.BinOp) and isinstance(node.op, ast.Pow):
        a, b = _num(node.left), _num(node.right)
        if a is not None and b is not None and b.denominator == 1:
            return a ** int(b)
    if isinstance(node, ast.UnaryOp) and isinstance(node.op, ast.USub):
        a = _num(node.operand)
        return -a if a is not None else None
    return None


def rule_si(ctx):
    pkg = ctx.pkg
    fi = pkg.func("utils.si")
    xname = fi.params[0]
    it = Interp(pkg)
    rows = []
    for n in fi.node.body:
        if not isinstance(n, ast.If):
            continue
        rets = [s for s in n.body if isinstance(s, ast.Return)]
        if not rets or not isinstance(rets[0].value, ast.JoinedStr):
            continue
        js = rets[0].value
        fvals = [v for v in js.values if isinstance(v, ast.FormattedValue)]
        if not fvals:
            continue
        # bounds from the test
        lo = hi = None
        t = n.test
        ok = True
        if isinstance(t, ast.Compare):
            terms = [t.left] + list(t.comparators)
            for i, op in enumerate(t.ops):
                a, b = terms[i], terms[i + 1]
                if isinstance(b, ast.Name) and b.id == xname and isinstance(op, (ast.LtE,)):
                    lo = _num(a)
                elif isinstance(a, ast.Name) and a.id == xname and isinstance(op, (ast.Lt,)):
                    hi = _num(b)
                elif isinstance(a, ast.Name) and a.id == xname and isinstance(op, (ast.GtE,)):
                    lo = _num(b)
                elif isinstance(b, ast.Name) and b.id == xname and isinstance(op, (ast.Gt,)):
                    hi = _num(a)
                elif isinstance(op, ast.Eq):
                    ok = False
                else:
                    ok = None
        else:
            ok = None
        if ok is False:
            continue  # the x == 0 branch
        if ok is None or lo is None:
            ctx.unknown("C19.1", fi, n, None, "branch test of si() not of the form lo <= x < hi")
            continue
        # scale: value formatted first
        st = State({xname: S(xname)})
        val = it.eval(fvals[0].value, st, fi, 0)
        scale = None
        if isinstance(val, Form):
            q = (val / S(xname)).rational()
            scale = q
        # prefix: constant text following the mantissa up to the unit placeholder
        idx = js.values.index(fvals[0])
        txt = ""
        if idx + 1 < len(js.values) and isinstance(js.values[idx + 1], ast.Constant):
            txt = str(js.values[idx + 1].value)
        prefix = txt.strip()
        rows.append((n, lo, hi, scale, prefix))
    if len(rows) < 5:
        ctx.unknown("C19.1", fi, fi.node, "si ladder", f"only {len(rows)} decade branches recognised")
        return
    for n, lo, hi, scale, prefix in rows:
        cons = f"si branch {src_of(n.test)} -> prefix '{prefix}'"
        if prefix not in SI_EXP:
            ctx.violation("C19.1", fi, n, cons, f"'{prefix}' is not an SI prefix of the documented ladder")
            continue
        e = SI_EXP[prefix]
        ten = Fraction(10) ** e
        if scale is None:
            ctx.unknown("C19.1", fi, n, cons, "mantissa is not a constant multiple of x")
        elif scale * ten != 1:
            ctx.violation("C19.1", fi, n, cons, f"mantissa is x*{float(scale):g} but prefix '{prefix}' means 1e{e}: printed value times prefix is x*{float(scale*ten):g}, not x")
        elif lo != ten:
            ctx.violation("C19.1", fi, n, cons, f"lower bound {float(lo):g} is not 1e{e}: mantissa leaves [1,1000)")
        elif hi is not None and hi != ten * 1000:
            ctx.violation("C19.1", fi, n, cons, f"upper bound {float(hi):g} is not 1e{e+3}")
        else:
            ctx.holds("C19.1", fi, n, cons, f"scale*1e{e}=1, range [1e{e}, {'inf' if hi is None else '1e%d' % (e+3)})")
    # contiguity
    srt = sorted(rows, key=lambda r: r[1])
    gaps = []
    for a, b in zip(srt, srt[1:]):
        if a[2] != b[1]:
            gaps.append((a, b))
    if srt[0][1] != Fraction(10) ** -15:
        ctx.violation("C19.1", fi, srt[0][0], "si ladder start", f"ladder starts at {float(srt[0][1]):g}, documented 1e-15")
    if srt[-1][2] is not None:
        ctx.violation("C19.1", fi, srt[-1][0], "si ladder top", "top decade is bounded: large x falls through and returns None")
    for a, b in gaps:
        ctx.violation("C19.1", fi, b[0], "si ladder contiguity", f"gap/overlap between {float(a[2]) if a[2] else 'inf'} and {float(b[1]):g}")
    if not gaps:
        ctx.holds("C19.1", fi, fi.node, "si ladder contiguity", f"{len(rows)} decades contiguous from 1e-15 upward")


# -- log/exp simplification used by C19.2
def expand_logs(f: Form) -> Form:
    def fn(a):
        if a[0] == "fn" and a[1] == "log10" and len(a[2]) == 1 and isinstance(a[2][0], Form):
            arg = expand_logs(a[2][0])
            if len(arg.terms) == 1:
                (m, c), = arg.terms.items()
                if c[1] == 0 and c[0] > 0:
                    tot = Form()
                    # coefficient: only exact powers of ten fold
                    k = 0
                    cc = c[0]
                    while cc >= 10 and cc % 10 == 0:
                        cc /= 10
                        k += 1
                    while cc < 1 and (cc * 10).denominator <= cc.denominator:
                        cc *= 10
                        k -= 1
                        if cc == 1:
                            break
                    if cc != 1:
                        tot = tot + Form.atom(("fn", "log10", (Form.num(cc),), ()))
                    tot = tot + Form.num(k)
                    for at, e in m:
                        if at[0] == "fn" and at[1] == "exp10":
                            tot = tot + expand_logs(at[2][0]) * Form.num(e)
                        else:
                            tot = tot + Form.atom(("fn", "log10", (Form.atom(at),), ())) * Form.num(e)
                    return tot
            return Form.atom(("fn", "log10", (arg,), ()))
        if a[0] == "fn" and a[1] == "exp10" and len(a[2]) == 1 and isinstance(a[2][0], Form):
            arg = expand_logs(a[2][0])
            # exp10(k + sum c_i*log10(y_i)) = 10^k * prod y_i^c_i
            res = Form.num(1)
            rest = Form()
            for m, c in arg.terms.items():
                if len(m) == 1 and m[0][1] == 1 and m[0][0][0] == "fn" and m[0][0][1] == "log10" and c[1] == 0:
                    res = res * fpow(m[0][0][2][0], c[0])
                else:
                    rest = rest + Form({m: c})
            return res * mk_fn("exp10", [rest])
        return None
    return f.subst(fn)


def rule_db(ctx):
    pkg = ctx.pkg
    forms = {}
    for name in ("db", "dbm", "idb", "idbm"):
        fi, it, ret = single_return(ctx, "C19.2", pkg, f"utils.{name}", assumptions={})
        if ret is None:
            # db/dbm have raise paths; single_return counts only returns, so None means really ambiguous
            return
        v = ret.value
        if not isinstance(v, Form):
            ctx.unknown("C19.2", fi, ret.node, None, "return value is not an arithmetic form")
            return
        forms[name] = (fi, ret.node, expand_logs(v))
    x = S("x")
    L = lambda f: Form.atom(("fn", "log10", (f,), ()))
    oracle = {
        "db": 10 * L(x),
        "dbm": 10 * L(x) + 30,
        "idb": mk_fn("exp10", [x / 10]),
        "idbm": mk_fn("exp10", [x / 10 - 3]),
    }
    for name, (fi, node, f) in forms.items():
        pname = fi.params[0]
        f = f.subst(lambda a: x if a == ("sym", pname) else None)
        forms[name] = (fi, node, f)
        ctx.check("C19.2", f == oracle[name], fi, node, f"{name}(x) = {f!r}", f"equals {oracle[name]!r}",
                  f"normal form {f!r} differs from the documented {oracle[name]!r}")
    # compositions reduce to the identity (decided on the code's own forms)
    def compose(outer, inner):
        fo, fi_ = forms[outer][2], forms[inner][2]
        return expand_logs(fo.subst(lambda a: fi_ if a == ("sym", "x") else None))
    for outer, inner in (("idb", "db"), ("db", "idb"), ("idbm", "dbm"), ("dbm", "idbm")):
        comp = compose(outer, inner)
        fi, node, _ = forms[outer]
        ctx.check("C19.2", comp == x, fi, node, f"{outer}({inner}(x))", "reduces to x",
                  f"{outer}({inner}(x)) reduces to {comp!r}, not x")
    # negative input -> ValueError
    for name in ("db", "dbm"):
        fi = pkg.func(f"utils.{name}")
        ok = None
        for ifn, test, excs in find_raise_guards(fi):
            cmps = [c for c in ast.walk(test) if isinstance(c, ast.Compare) and len(c.ops) == 1]
            for c in cmps:
                neg = (isinstance(c.ops[0], ast.Lt) and _num(c.comparators[0]) == 0) or (isinstance(c.ops[0], ast.Gt) and _num(c.left) == 0)
                if neg and "ValueError" in excs:
                    ok = ifn
        if ok is not None:
            ctx.holds("C19.2", fi, ok, f"{name}: negative input rejected", "ValueError guard on x<0")
        else:
            ctx.violation("C19.2", fi, fi.node, f"{name}: negative input rejected", "no `x < 0 -> ValueError` guard")


def rule_q_gaus(ctx):
    pkg = ctx.pkg
    fi, it, ret = single_return(ctx, "C19.3", pkg, "utils.Q")
    if ret is not None:
        x = S(fi.params[0])
        oracle = Form.num(Fraction(1, 2)) * mk_fn("erfc", [x / fpow(Form.num(2), Fraction(1, 2))])
        ctx.check("C19.3", ret.value == oracle, fi, ret.node, f"Q(x) = {ret.value!r}", "equals erfc(x/sqrt2)/2",
                  f"differs from 0.5*erfc(x/sqrt(2)) = {oracle!r}")
    fi, it, ret = single_return(ctx, "C19.3", pkg, "utils.gaus", assumptions={"mu": "notnone", "std": "notnone"})
    if ret is not None:
        x, mu, sd = S("x"), S("mu"), S("std")
        oracle = mk_fn("exp", [-(x - mu) * (x - mu) / (2 * sd * sd)]) / (sd * fpow(2 * PI, Fraction(1, 2)))
        ctx.check("C19.3", ret.value == oracle, fi, ret.node, f"gaus = {ret.value!r}", "equals the normal pdf",
                  f"differs from exp(-(x-mu)^2/(2 std^2))/(std*sqrt(2 pi)) = {oracle!r}")


def rule_rcos(ctx):
    pkg = ctx.pkg
    fi = pkg.func("utils.rcos")
    it = Interp(pkg)
    it.run(fi)
    env = {}
    for f, stmt, name, val, conds, depth in it.assign_log:
        if depth == 0 and name not in env:
            env[name] = (val, stmt)
    x, al, T = S("x"), S("alpha"), S("T")
    ax = mk_fn("abs", [x])
    b1 = (1 - al) / (2 * T)
    b2 = (1 + al) / (2 * T)
    want = {
        "first_condition": mk_fn("le", [ax, b1]),
        "second_condition": mk_fn("band", [mk_fn("gt", [ax, b1]), mk_fn("le", [ax, b2])]),
        "third_condition": mk_fn("gt", [ax, b2]),
    }
    got_any = False
    for nm, w in want.items():
        if nm in env:
            got_any = True
            v, stmt = env[nm]
            ctx.check("C19.4", v == w, fi, stmt, f"{nm} = {v!r}", "break points (1-+alpha)/(2T) on |x|",
                      f"region predicate differs from {w!r}: the three regions no longer partition the axis at (1-+alpha)/(2T)")
    if not got_any:
        ctx.unknown("C19.4", fi, fi.node, "rcos regions", "region predicates not found as locals")
        return
    # middle-region value form: 0.5*(1+cos(pi*T/alpha*(|x|-(1-alpha)/(2T))))
    mid = Form.num(Fraction(1, 2)) * (1 + mk_fn("cos", [PI * T / al * (ax - b1)]))
    seen = 0
    for n in body_nodes(fi):
        if isinstance(n, ast.Call) and src_of(n.func) in ("np.cos", "numpy.cos", "cos"):
            seen += 1
    vals = []
    for rec in it.calls:
        if rec.callee in ("numpy.cos",) and rec.depth == 0:
            vals.append(rec)
    for rec in vals:
        arg = rec.args[0]
        if isinstance(arg, Form):
            # array branch indexes x with the mask: strip the index
            def strip(a):
                if a[0] == "idx" and isinstance(a[1], Form) and a[1].sym_name() == "x":
                    return x
                return None
            arg2 = arg.subst(strip)
            w = PI * T / al * (ax - b1)
            ctx.check("C19.4", arg2 == w, fi, rec.node, f"cos argument {arg2!r}", "pi*T/alpha*(|x|-(1-alpha)/(2T))",
                      f"roll-off argument differs from {w!r}")
    if not vals:
        ctx.unknown("C19.4", fi, fi.node, "rcos roll-off", "no cos() call found")


def rule_dec2bin(ctx):
    pkg = ctx.pkg
    fi = pkg.func("utils.dec2bin")
    num, digits = fi.params[0], fi.params[1]
    # guard: num > 2**digits - 1 -> ValueError, before the loop
    loop = next((n for n in fi.node.body if isinstance(n, (ast.While, ast.For))), None)
    guard = None
    for ifn, test, excs in find_raise_guards(fi):
        if {num, digits} <= names_in(test):
            guard = (ifn, test, excs)
    if guard is None:
        ctx.violation("C19.5", fi, fi.node, "dec2bin range guard", "no guard rejecting num > 2**digits-1")
    else:
        ifn, test, excs = guard
        it = Interp(pkg)
        v = it.eval(test, State({num: S("num"), digits: S("digits")}), fi, 0)
        lim = fpow(Form.num(2), S("digits")) - 1
        ok_forms = (mk_fn("gt", [S("num"), lim]), mk_fn("ge", [S("num"), lim + 1]), mk_fn("lt", [lim, S("num")]), mk_fn("le", [lim + 1, S("num")]))
        if v not in ok_forms:
            ctx.violation("C19.5", fi, ifn, "dec2bin range guard", f"guard `{src_of(test)}` is not `num > 2**digits-1`")
        elif "ValueError" not in excs:
            ctx.violation("C19.5", fi, ifn, "dec2bin range guard", f"raises {excs}, documented ValueError")
        elif loop is not None and ifn.lineno > loop.lineno:
            ctx.violation("C19.5", fi, ifn, "dec2bin range guard", "guard is evaluated after the conversion loop")
        else:
            ctx.holds("C19.5", fi, ifn, "dec2bin range guard", "num > 2**digits-1 -> ValueError before the loop")
    if loop is None:
        ctx.unknown("C19.5", fi, fi.node, "dec2bin loop", "conversion loop not found")
        return
    # loop: binary[i] = num % 2 ; num //= 2 ; i -= 1 with i starting at digits-1
    store = halve = dec = None
    for n in ast.walk(loop):
        if isinstance(n, ast.Assign) and isinstance(n.targets[0], ast.Subscript):
            store = n
        if isinstance(n, ast.AugAssign) and isinstance(n.target, ast.Name):
            if n.target.id == num and isinstance(n.op, ast.FloorDiv) and _num(n.value) == 2:
                halve = n
            elif isinstance(n.op, ast.Sub) and _num(n.value) == 1:
                dec = n
        if isinstance(n, ast.Assign) and isinstance(n.targets[0], ast.Name) and n.targets[0].id == num:
            if src_of(n.value).replace(" ", "") in (f"{num}//2", f"{num}>>1"):
                halve = n
    inc = [n for n in ast.walk(loop) if isinstance(n, ast.AugAssign) and isinstance(n.target, ast.Name) and isinstance(n.op, ast.Add) and _num(n.value) == 1 and n.target.id != num]
    if store is not None and halve is not None and dec is None and inc and src_of(store.targets[0].slice) == inc[0].target.id:
        ctx.violation("C19.5", fi, store, f"{src_of(store)}; {src_of(halve)}; {src_of(inc[0])}", "the least significant bit is stored first and the index increases: the expansion is little-endian, not big-endian")
        return
    if store is None or halve is None or dec is None:
        ctx.unknown("C19.5", fi, loop, "dec2bin loop", "store / halving / index decrement idiom not recognised")
        return
    rhs_ok = src_of(store.value).replace(" ", "") in (f"{num}%2", f"{num}&1")
    idxname = src_of(store.targets[0].slice)
    init = None
    for n in fi.node.body:
        if isinstance(n, ast.Assign) and isinstance(n.targets[0], ast.Name) and n.targets[0].id == idxname:
            init = n
    init_ok = init is not None and src_of(init.value).replace(" ", "") == f"{digits}-1"
    order_ok = store.lineno < halve.lineno
    ctx.check("C19.5", rhs_ok and init_ok and order_ok and dec.target.id == idxname, fi, store,
              f"{src_of(store)}; {src_of(halve)}; {src_of(dec)}", "LSB stored at index digits-1 downward (big-endian)",
              "loop does not store num%2 from index digits-1 downward before halving: expansion is not big-endian")


def _class_chars(pattern):
    import re._parser as rp  # type: ignore
    p = rp.parse(pattern)
    items = list(p)
    chars = set()
    anchored_start = anchored_end = False
    for op, av in items:
        name = str(op)
        if name == "AT":
            if str(av) == "AT_BEGINNING":
                anchored_start = True
            if str(av) == "AT_END":
                anchored_end = True
        elif name in ("MAX_REPEAT", "MIN_REPEAT"):
            lo, hi, sub = av
            for sop, sav in sub:
                if str(sop) == "IN":
                    for iop, iav in sav:
                        if str(iop) == "LITERAL":
                            chars.add(chr(iav))
                        elif str(iop) == "RANGE":
                            for c in range(iav[0], iav[1] + 1):
                                chars.add(chr(c))
                        elif str(iop) == "CATEGORY" and str(iav) == "CATEGORY_SPACE":
                            chars |= set(" \t\n\r\f\v")
                        else:
                            return None
                else:
                    return None
        else:
            return None
    return chars, anchored_start and anchored_end


def rule_str2array(ctx):
    pkg = ctx.pkg
    fi = pkg.func("utils._get_type_array_from_str")
    rows = []
    for n in fi.node.body:
        if isinstance(n, ast.If) and isinstance(n.test, ast.Call) and src_of(n.test.func) in ("re.match", "re.fullmatch") and n.body and isinstance(n.body[0], ast.Return):
            pat = n.test.args[0]
            if isinstance(pat, ast.Constant) and isinstance(pat.value, str):
                rows.append((n, pat.value, src_of(n.body[0].value), src_of(n.test.func)))
    if len(rows) != 4:
        ctx.unknown("C19.6", fi, fi.node, "type-inference regexes", f"expected 4 regex branches, found {len(rows)}")
        return
    expect = ["bool", "int", "float", "complex"]
    prev = None
    SEP = set(",; \t\n\r\f\v")
    need = {
        "bool": set("01") | SEP,
        "int": set("0123456789+-") | SEP,
        "float": set("0123456789+-.") | SEP,
        "complex": set("0123456789+-.ij") | SEP,
    }
    for (n, pat, ret, fn), exp in zip(rows, expect):
        cc = _class_chars(pat)
        cons = f"regex for {exp}: {pat}"
        if ret != exp:
            ctx.violation("C19.6", fi, n, cons, f"branch order: returns {ret}, expected {exp} (narrowest type first)")
            continue
        if cc is None:
            ctx.unknown("C19.6", fi, n, cons, "regex is not an anchored single character class")
            continue
        chars, anchored = cc
        if not anchored and fn != "re.fullmatch":
            ctx.violation("C19.6", fi, n, cons, "pattern not anchored at both ends: text with other characters would match")
        elif chars != need[exp]:
            extra = "".join(sorted(chars - need[exp]))
            miss = "".join(sorted(need[exp] - chars))
            ctx.violation("C19.6", fi, n, cons, f"character class differs from the documented alphabet (extra {extra!r}, missing {miss!r})")
        elif prev is not None and not prev < chars:
            ctx.violation("C19.6", fi, n, cons, "classes do not form the chain bool<int<float<complex")
        else:
            ctx.holds("C19.6", fi, n, cons, f"{len(chars)} characters, anchored")
        prev = chars
    last = fi.node.body[-1]
    ctx.check("C19.6", isinstance(last, ast.Return) and src_of(last.value) == "None", fi, last, "fall-through returns None",
              "unmatched text yields None", "fall-through of the regex chain does not return None")
    # str2array: None -> ValueError ; i->j ; separators ; dtype applied last
    f2 = pkg.func("utils.str2array")
    src = f2.node
    raises = [n for n in body_nodes(f2) if isinstance(n, ast.Raise)]
    ok_raise = any(isinstance(r.exc, ast.Call) and src_of(r.exc.func) == "ValueError" for r in raises)
    # the raise must be in the final else of the dtype dispatch
    disp = next((n for n in f2.node.body if isinstance(n, ast.If)), None)
    tail = disp
    while tail is not None and len(tail.orelse) == 1 and isinstance(tail.orelse[0], ast.If):
        tail = tail.orelse[0]
    else_raises = tail is not None and any(isinstance(s, ast.Raise) for s in tail.orelse)
    ctx.check("C19.6", ok_raise and else_raises, f2, tail or f2.node, "str2array: invalid characters", "else branch raises ValueError",
              "text matching no class does not reach `raise ValueError`")
    rep = [n for n in body_nodes(f2) if isinstance(n, ast.Call) and isinstance(n.func, ast.Attribute) and n.func.attr == "replace"
           and len(n.args) == 2 and all(isinstance(a, ast.Constant) for a in n.args) and (n.args[0].value, n.args[1].value) == ("i", "j")]
    ctx.check("C19.6", bool(rep), f2, rep[0] if rep else f2.node, "str2array: i -> j", "imaginary unit i rewritten to j",
              "no replace('i','j') before complex parsing: 'i' as imaginary unit is not accepted")
    splits = [n for n in body_nodes(f2) if isinstance(n, ast.Call) and src_of(n.func) == "re.split" and n.args and isinstance(n.args[0], ast.Constant)]
    bad = [n for n in splits if n.args[0].value != r"[,\s]+"]
    if not splits:
        ctx.unknown("C19.6", f2, f2.node, "str2array: element separators", "no re.split call found")
    for n in splits:
        ctx.check("C19.6", n.args[0].value == r"[,\s]+", f2, n, f"re.split({n.args[0].value!r}, ...)", "elements split on commas/whitespace",
                  f"element separator pattern {n.args[0].value!r} is not [,\\s]+")
    rowsplit = [n for n in body_nodes(f2) if isinstance(n, ast.Call) and isinstance(n.func, ast.Attribute) and n.func.attr == "split"
                and len(n.args) == 1 and isinstance(n.args[0], ast.Constant)]
    for n in rowsplit:
        ctx.check("C19.6", n.args[0].value == ";", f2, n, f".split({n.args[0].value!r})", "rows split on ';'",
                  f"row separator {n.args[0].value!r} is not ';'")
    # the digit-by-digit (bit pattern) branch is taken only without a numeric dtype: int, float AND complex are numeric
    from ..absint import ClassRef
    bool_branch = None
    for n in f2.node.body:
        if isinstance(n, ast.If) and "bool" in src_of(n.test):
            bool_branch = n
    inner = next((n for n in (bool_branch.body if bool_branch else []) if isinstance(n, ast.If)), None)
    if inner is None:
        ctx.unknown("C19.6", f2, f2.node, "str2array: numeric-dtype test in the 0/1 branch", "branch structure not recognised")
    else:
        verdict = {}
        for nm, val in (("int", ClassRef("int")), ("float", ClassRef("float")), ("complex", ClassRef("complex")), ("bool", ClassRef("bool")), ("None", Const(None))):
            it = Interp(pkg, param_values={f2.params[1]: val})
            st = State({f2.params[1]: val, f2.params[0]: S(f2.params[0])})
            verdict[nm] = it.truth(inner.test, st, f2, 0)
        numeric_first = any(isinstance(x, ast.Call) and src_of(x.func) == "re.split" for s_ in inner.body for x in ast.walk(s_))
        want = {"int": True, "float": True, "complex": True, "bool": False, "None": False}
        if not numeric_first:
            want = {k: not v for k, v in want.items()}
        wrong = [k for k in want if verdict[k] is not None and verdict[k] != want[k]]
        undec = [k for k in want if verdict[k] is None]
        if wrong:
            ctx.violation("C19.6", f2, inner, f"str2array: 0/1 text dispatch `{src_of(inner.test)}`", f"dtype {wrong} is routed to the wrong parser: text made of 0/1 digits must be read token-wise for every numeric dtype "
                          "(int, float, complex) and digit-by-digit otherwise")
        elif undec:
            ctx.unknown("C19.6", f2, inner, f"str2array: 0/1 text dispatch `{src_of(inner.test)}`", f"test not decidable for dtype {undec}")
        else:
            ctx.holds("C19.6", f2, inner, f"str2array: 0/1 text dispatch `{src_of(inner.test)}`", "int/float/complex -> token-wise, bool/None -> digit-by-digit")
    last = f2.node.body[-1]
    ok = isinstance(last, ast.Return) and isinstance(last.value, ast.IfExp) and "astype" in src_of(last.value.body) and src_of(last.value.test) == f2.params[1]
    ctx.check("C19.6", ok, f2, last, src_of(last), "explicit dtype applied last", "explicit dtype is not applied to the parsed array at the end")


def run(ctx):
    rule_si(ctx)
    rule_db(ctx)
    rule_q_gaus(ctx)
    rule_rcos(ctx)
    rule_dec2bin(ctx)
    rule_str2array(ctx)
    ctx.require_min("C19.1", 11)
    ctx.require_min("C19.2", 10)
    ctx.require_min("C19.3", 2)
    ctx.require_min("C19.5", 2)
    ctx.require_min("C19.6", 9)
