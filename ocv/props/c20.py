"""C20 - PPG3204 driver emits only in-range commands; memory framing; SYNC structure (lab.py)."""
from __future__ import annotations

import ast
import math
import re

from ..absint import Interp, ObjV
from ..forms import Const, Form, SliceV, TupleV, mk_fn
from ..intervals import AV, INF, IntervalInterp, fmt
from ..rules import S, body_nodes, find_raise_guards, in_loop
from ..srcmodel import src_of

EXPLANATION = (
    "lab.py is only parsed (pyvisa is never imported) and first brought to canonical spelling (ocv/normalize.py: format()->f-string, "
    "keyword->positional, index loops->element loops); private helpers are interpreted with the caller's intervals. C20.1: every SCPI "
    "command string passed to _query (inline or built in a temporary; literal alternatives expanded) is matched against a command table that "
    "gives the documented limit of each interpolated slot; an element-wise interval analysis with guard refinement (clip, np.clip, "
    "arange, tile, astype to an integer type = truncation, `(x<a).any() or (x>b).any()`, `x<a or x>b`, `x in TABLE`, `.size > K`, np.split at multiples of K) must prove the "
    "slot's value inside the limit on every path: channel in [1,4] (through _check_channels), frequency [1.5e9,32e9], amplitude [0.3,2], "
    "offset [-2,3], skew +-25e-12, pattern length [2,2^21], PRBS order a member of the table, write-block length <= 1024, read-block "
    "length [1,1024]; the class constants themselves must equal the documented limits. A guard the refinement does not understand refines "
    "nothing, so a mis-shaped guard leaves the interval wide and the command site is reported. C20.2: out-of-range branches warn and never "
    "raise, and no float format spec is applied to an ndarray-kinded value (TypeError instead of the warning). C20.3: block framing "
    "n = chunk.size, k = len(str(n)), header #{k}{n}, address advancing by n from start_addrs. C20.4: read-back blocks are joined by "
    "concatenation (stacking unequal blocks cannot return the written bits). C20.5: SYNC rejects a record shorter than the pattern before "
    "correlating, searches a lag window that covers every delay below one pattern length (W >= 2*l - 1), returns argmax of the correlation and a signal sliced from that index. Not decided: behaviour against a simulated "
    "instrument over call histories, SYNC under noise.")
EXPLANATION += (' Added after the audit wave: C20.5 the delays searched by SYNC are 0 .. l-1 and no more (lag l ties with lag 0 on a repeated pattern); C20.3 the memory clamp of set_data measures the converted, tiled array on its last axis and cuts columns, not rows.')
EXPLANATION += (' Second audit wave: C20.3 set_data and get_data both bring start_addrs into [1, MAX_MEMORY_LEN] before using it (sibling agreement).')
EXPLANATION += (' Wave 14: C20.4 a running address that is advanced block by block inside a loop is set back inside the enclosing channel loop (get_data, set_data and the helpers they call): every channel is transferred from the same start address.')
EXPLANATION += (' Neutral wave 7: the interval interpreter follows callable values (a lambda or nested def handed to a helper that builds the command), map, generator expressions, np.clip(x, *limits) and string concatenation of command pieces; a helper that returns (clamped values, True) from its clamp branch and (values, False) otherwise hands the caller a flag that is True exactly when the clamp was taken, and the caller warning under that flag is the warning C20.2 asks for.')
TRUSTED = ["numpy clip/arange/tile/split semantics", "IEEE-488.2 definite-length block header format #<k><n>", "documented PPG3204 limits as listed in the property statement"]

DOCUMENTED = {"CHANNELS": 4, "PATT_LEN_MIN": 2, "PATT_LEN_MAX": 2 ** 21, "AMPLITUDE_MIN": 0.3, "AMPLITUDE_MAX": 2, "OFFSET_MIN": -2, "OFFSET_MAX": 3,
              "FREQ_MIN": 1.5e9, "FREQ_MAX": 32e9, "MAX_CHUNK_LEN": 1024, "MIN_SKEW": -25e-12, "MAX_SKEW": 25e-12, "MAX_MEMORY_LEN": 2 ** 21}
PRBS_ORDERS = (7, 9, 11, 15, 23, 31)
CH = ("channel", 1, 4)
# command pattern (slots as {}) -> limits per slot: (name, lo, hi) | ("member", table) | None (free)
TABLE = {
    ":DIG{}:PATT:LENG {}": [CH, ("pattern length", 2, 2 ** 21)],
    ":DIG{}:PATT:LENG?": [CH],
    ":DIG{}:PATT:TYPE {}": [CH, None],
    ":DIG{}:PATT:TYPE?": [CH],
    ":DIG{}:PATT:PLEN {}": [CH, ("member", PRBS_ORDERS)],
    ":DIG{}:PATT:PLEN?": [CH],
    ":DIG{}:PATT:DATA {},{},#{}{}{}": [CH, None, ("write block length", 0, 1024), None, ("write block length", 0, 1024), None],
    ":DIG{}:PATT:DATA? {},{}": [CH, None, ("read block length", 1, 1024)],
    ":DIG{}:PATT:BSH {}": [CH, None],
    ":DIG{}:PATT:BSH?": [CH],
    ":OUTP{} ON": [CH],
    ":OUTP{} OFF": [CH],
    ":FREQ {}": [("frequency", 1.5e9, 32e9)],
    ":FREQ?": [],
    ":SKEW{} {}": [CH, ("skew", -25e-12, 25e-12)],
    ":SKEW{}?": [CH],
    ":VOLT{}:POS {}v": [CH, ("amplitude", 0.3, 2)],
    ":VOLT{}:POS?": [CH],
    ":VOLT{}:NEG:OFFS {}v": [CH, ("offset", -2, 3)],
    ":VOLT{}:POS:OFFS {}v": [CH, ("offset", -2, 3)],
    ":VOLT{}:OFFS?": [CH],
    "*RST": [],
    "*IDN?": [],
}


def const_eval(node):
    if isinstance(node, ast.Constant) and isinstance(node.value, (int, float)) and not isinstance(node.value, bool):
        return node.value
    if isinstance(node, ast.UnaryOp) and isinstance(node.op, ast.USub):
        v = const_eval(node.operand)
        return -v if v is not None else None
    if isinstance(node, ast.BinOp):
        a, b = const_eval(node.left), const_eval(node.right)
        if a is None or b is None:
            return None
        try:
            return {ast.Add: a + b, ast.Sub: a - b, ast.Mult: a * b, ast.Pow: a ** b, ast.Div: a / b if b else None}.get(type(node.op))
        except Exception:
            return None
    if isinstance(node, (ast.List, ast.Tuple)):
        vs = [const_eval(e) for e in node.elts]
        return vs if all(v is not None for v in vs) else None
    return None


def run(ctx):
    pkg = ctx.pkg
    ci = pkg.cls("lab", "PPG3204")
    # canonical spelling first (format() -> f-string, keyword -> positional, index loops -> element loops, ...): see ocv/normalize.py
    from ..normalize import normalize_function
    lab = pkg.module("lab")
    helpers = {}
    for q, f in lab.funcs.items():
        normalize_function(f.node)
        if f.cls is None and f.parent is None and f.name.startswith("_"):
            helpers[f.name] = f.node
    for name, m in ci.methods.items():
        if name.startswith("_") and name not in ("__init__", "__del__", "__call__", "_query", "_check_channels"):
            helpers[name] = m.node
    consts = {}
    for k, v in ci.class_consts.items():
        c = const_eval(v)
        if c is not None:
            consts[k] = c
    # ---------------- class constants equal the documented limits
    for k, want in DOCUMENTED.items():
        node = ci.class_consts.get(k)
        if k not in consts:
            ctx.unknown("C20.1", None, None, f"PPG3204.{k}", "class constant missing or not a literal")
        else:
            ctx.add("C20.1", "HOLDS" if math.isclose(consts[k], want, rel_tol=1e-12) else "VIOLATION", ci.methods.get("__init__"), node, f"PPG3204.{k} = {fmt(consts[k])}",
                    f"documented limit {fmt(want)}" if math.isclose(consts[k], want, rel_tol=1e-12) else f"class constant differs from the documented instrument limit {fmt(want)}: clamps use the wrong range")
    po = consts.get("PRBS_ORDERS")
    ctx.check("C20.1", po is not None and tuple(po) == PRBS_ORDERS, ci.methods.get("__init__"), ci.class_consts.get("PRBS_ORDERS"), f"PPG3204.PRBS_ORDERS = {po}", "documented supported orders", f"supported-order table differs from {list(PRBS_ORDERS)}")
    # ---------------- channel normalisation summary
    cc = ci.methods.get("_check_channels")
    if cc is None:
        ctx.unknown("C20.1", None, None, "PPG3204._check_channels", "method missing")
        return
    opnames = tuple(k for k, v in lab.imports.items() if v == "operator")
    ii = IntervalInterp(consts, functions=helpers)
    ii.operator_names = opnames
    ii.run(cc.node)
    if not ii.returns:
        ctx.unknown("C20.1", cc, cc.node, "_check_channels", "no return value")
        return
    chs = ii.returns[0]
    for r in ii.returns[1:]:
        from ..intervals import hull
        chs = hull(chs, r)
    chs = AV(chs.lo, chs.hi, "array")
    ctx.check("C20.1", chs.within(1, consts.get("CHANNELS", 4)), cc, cc.node, f"_check_channels returns channels in {chs!r}", "every channel in [1, CHANNELS]",
              f"normalised channel numbers can lie in {chs!r}, outside [1, {consts.get('CHANNELS', 4)}]: commands may address a non-existent channel")
    # ---------------- every command site
    n_sites = 0
    # private helpers that other methods call are analysed where they are called (with the caller's values), not as entry points
    called_helpers = set()
    for name, m in ci.methods.items():
        for n_ in ast.walk(m.node):
            if isinstance(n_, ast.Call) and isinstance(n_.func, ast.Attribute) and isinstance(n_.func.value, ast.Name) and n_.func.value.id == "self" \
                    and n_.func.attr in helpers and n_.func.attr != name:
                called_helpers.add(n_.func.attr)
    for name, m in ci.methods.items():
        if name in called_helpers:
            continue
        if name in ("_query", "__init__", "__del__", "_check_channels"):
            if name != "__init__":
                continue
        ii = IntervalInterp(consts, {"_check_channels": chs}, functions=helpers)
        ii.operator_names = opnames
        ii.run(m.node)
        for site in ii.sites:
            n_sites += 1
            key = "".join(p[1] if p[0] == "text" else "{}" for p in site.parts)
            key = key.strip("'\"")
            slots = [p for p in site.parts if p[0] == "slot"]
            limits = TABLE.get(key)
            cons = f"{m.qualname}: command `{key}`"
            if limits is None:
                ctx.unknown("C20.1", m, site.node, cons, "command not in the documented command table: limits of its slots unknown")
                continue
            if len(limits) != len(slots):
                ctx.unknown("C20.1", m, site.node, cons, "slot count differs from the command table")
                continue
            for (kind, src, av, spec), lim in zip(slots, limits):
                if lim is None:
                    continue
                if lim[0] == "member":
                    ok = av.member is not None and set(av.member) <= set(lim[1])
                    ctx.check("C20.1", ok, m, site.node, f"{cons}: slot `{src}`", f"member of {list(lim[1])}",
                              f"value of `{src}` is not proven to be one of the supported orders {list(lim[1])} (found {av!r})")
                    continue
                what, lo, hi = lim
                if av.within(lo, hi):
                    ctx.holds("C20.1", m, site.node, f"{cons}: slot `{src}` ({what})", f"{av!r} within [{fmt(lo)}, {fmt(hi)}]")
                elif av.opaque:
                    ctx.unknown("C20.1", m, site.node, f"{cons}: slot `{src}` ({what})", f"the value flows through a construct the interval analysis does not model ({av!r}): cannot decide")
                else:
                    ctx.violation("C20.1", m, site.node, f"{cons}: slot `{src}` ({what})",
                                  f"value sent can lie in {av!r}; documented limit [{fmt(lo)}, {fmt(hi)}]: the clamp is missing, its guard does not cover the out-of-range case, or a block count can be 0")
        for (node, nm, spec, js) in ii.fmt_issues:
            ctx.violation("C20.2", m, js, f"{m.qualname}: format spec `:{spec}` applied to array `{nm}`",
                          f"`{nm}` is an ndarray here; `{{{nm}:{spec}}}` raises TypeError, so an out-of-range request raises instead of being clamped with a warning")
        for (ifn, has_clip, has_warn, has_raise) in ii.branch_info:
            if has_clip:
                has_warn = has_warn or ifn in ii.flag_warned
                ok = has_warn and not has_raise
                ctx.check("C20.2", ok, m, ifn, f"{m.qualname}: out-of-range branch `{src_of(ifn.test)[:80]}`", "clamp and warn, no raise",
                          "the out-of-range branch " + ("raises" if has_raise else "does not issue a warning"))
    ctx.notes.append(f"{n_sites} _query call sites analysed")
    # ---------------- C20.3 the address a transfer starts at: set_data and get_data agree on its range.  get_data clamps the start
    # address to [1, MAX_MEMORY_LEN] with a warning; a set_data that sends the address as given writes at 0 / a negative address /
    # beyond the memory (the room computed from it is then negative: the data are cut from the END), and reading the range back
    # addresses other cells than were written
    for mname in ("set_data", "get_data"):
        mm = ci.methods.get(mname)
        if mm is None:
            continue
        clamped = False
        for n_ in ast.walk(mm.node):
            if isinstance(n_, ast.If) and any(isinstance(x, ast.Name) and x.id == "start_addrs" for x in ast.walk(n_.test)) \
                    and any(isinstance(x, (ast.Compare, ast.Call)) for x in ast.walk(n_.test)):
                if any(isinstance(st_, ast.Assign) and any(isinstance(t_, ast.Name) and t_.id == "start_addrs" for t_ in st_.targets) for st_ in ast.walk(n_)):
                    clamped = True
        if not clamped:
            # the clamp may be written without a guard: start_addrs = clip/min/max(...) over the memory range
            for n_ in ast.walk(mm.node):
                if isinstance(n_, ast.Assign) and any(isinstance(t_, ast.Name) and t_.id == "start_addrs" for t_ in n_.targets) \
                        and any(isinstance(x, ast.Attribute) and x.attr == "MAX_MEMORY_LEN" for x in ast.walk(n_.value)):
                    clamped = True
        if clamped:
            # ... and the clamp is two-sided: over every path of the method the address ends up inside [1, MAX_MEMORY_LEN] (interval
            # analysis of the whole method with an unconstrained argument; the address is not rebound after the guard)
            try:
                ii_ = IntervalInterp(consts, {"_check_channels": chs}, functions=helpers)
                ii_.operator_names = opnames
                env_ = ii_.run(mm.node)
                av_ = env_.get("start_addrs")
            except Exception:
                av_ = None
            MAXM = DOCUMENTED["MAX_MEMORY_LEN"]
            if av_ is not None and av_.kind != "none" and not av_.within(1, MAXM) and (av_.lo >= 1) == (av_.hi <= MAXM):
                ctx.unknown("C20.3", mm, mm.node, f"{mname}: start address ends inside [1, MAX_MEMORY_LEN] on every path", f"interval of the clamped address not determined ({av_!r})")
            elif av_ is not None and av_.kind != "none":
                inside = av_.within(1, MAXM)                   # else exactly one end is bounded: a one-sided clamp
                ctx.check("C20.3", inside, mm, mm.node, f"{mname}: start address ends inside [1, MAX_MEMORY_LEN] on every path", "both ends clamped",
                          f"after the guard `start_addrs` can lie in {av_!r}: the clamp is one-sided - {mname}(..., start_addrs=2**21+5) keeps the address, the room "
                          "MAX_MEMORY_LEN - start_addrs + 1 is zero or negative, a zero-length block or a block past the memory is sent (':DIG2:PATT:DATA 2097157,12,#212...') and "
                          "the range written is not the range get_data reads back")
        ctx.check("C20.3", clamped, mm, mm.node, f"{mname}: start address brought into [1, MAX_MEMORY_LEN] before it is used", "clamped like its sibling",
                  f"{mname} uses `start_addrs` as given: set_data([1,0,1], start_addrs=0) emits ':DIG1:PATT:DATA 0,3,...', start_addrs=2**21+3 a fragment past the memory - while get_data clamps "
                  "the same argument to 1..2^21, so the range written is not the range read back")
    # ---------------- C20.3 framing in set_data
    sd = ci.methods.get("set_data")
    if sd is None:
        ctx.unknown("C20.3", None, None, "set_data", "missing")
    else:
        q = [n for n in body_nodes(sd) if isinstance(n, ast.Call) and src_of(n.func) == "self._query" and n.args and isinstance(n.args[0], ast.JoinedStr)]
        start_name = "start_addrs"
        if not q:
            # the per-channel transfer may live in a private helper method called from set_data
            for n_ in body_nodes(sd):
                if isinstance(n_, ast.Call) and isinstance(n_.func, ast.Attribute) and isinstance(n_.func.value, ast.Name) and n_.func.value.id == "self" and n_.func.attr in ci.methods \
                        and n_.func.attr not in ("_query", "_check_channels"):
                    hm = ci.methods[n_.func.attr]
                    hq = [n for n in body_nodes(hm) if isinstance(n, ast.Call) and src_of(n.func) == "self._query" and n.args and isinstance(n.args[0], ast.JoinedStr)]
                    if len(hq) == 1:
                        # the helper's parameter that receives set_data's start address
                        hparams = [a.arg for a in hm.node.args.args if a.arg != "self"]
                        for i_, a_ in enumerate(n_.args):
                            if src_of(a_) == "start_addrs" and i_ < len(hparams):
                                start_name = hparams[i_]
                        for k_ in n_.keywords:
                            if src_of(k_.value) == "start_addrs":
                                start_name = k_.arg
                        sd, q = hm, hq
                        break
        if len(q) != 1 and _framing_by_value(ctx, ci.methods["set_data"]):
            pass
        elif len(q) != 1:
            ctx.unknown("C20.3", sd, sd.node, "set_data write command", f"{len(q)} command sites")
        else:
            js = q[0].args[0]
            # a piece of the command kept in a local f-string (header = f'#{len(str(n))}{n}') and put in whole stands for its own fields
            local_fs = {}
            for n in ast.walk(sd.node):
                if isinstance(n, ast.Assign) and len(n.targets) == 1 and isinstance(n.targets[0], ast.Name) and isinstance(n.value, ast.JoinedStr):
                    local_fs.setdefault(n.targets[0].id, []).append(n.value)
            flat = []
            for v in js.values:
                if isinstance(v, ast.FormattedValue) and v.format_spec is None and isinstance(v.value, ast.Name) and len(local_fs.get(v.value.id, [])) == 1:
                    flat.extend(local_fs[v.value.id][0].values)
                else:
                    flat.append(v)
            if len(flat) != len(js.values):
                js = ast.copy_location(ast.JoinedStr(values=flat), js)
            slots = [src_of(v.value) for v in js.values if isinstance(v, ast.FormattedValue)]
            loop = None
            for p in body_nodes(sd):
                if isinstance(p, ast.For) and any(x is q[0] for x in ast.walk(p)):
                    loop = p
            defs = {}
            for n in ast.walk(loop) if loop else []:
                if isinstance(n, ast.Assign) and isinstance(n.targets[0], ast.Name):
                    defs[n.targets[0].id] = src_of(n.value).replace(" ", "")
            chunk = src_of(loop.target) if loop is not None else "?"
            ok = len(slots) == 6
            why, missing = [], []
            off = _offset_loop_framing(sd, loop, slots, defs, start_name) if ok and loop is not None else None
            if off is not None:
                why = off            # blocks cut by a running offset: `for i in range(0, len(W), K): block = W[i:i+K]`
            elif ok:
                ch, p_, n_, k_, n2, d_ = slots
                if n_ != n2:
                    why.append("the length field and the header's length differ")
                if defs.get(n_) is None:
                    missing.append(f"`{n_}` is not assigned in the block loop")
                elif defs.get(n_) not in (f"{chunk}.size", f"len({chunk})"):
                    why.append(f"`{n_}` is not the block's size")
                if k_.replace(" ", "") == f"len(str({n_}))":
                    pass            # the digit count written in place
                elif defs.get(k_) is None:
                    missing.append(f"`{k_}` is not assigned in the block loop")
                elif defs.get(k_) != f"len(str({n_}))":
                    why.append(f"`{k_}` is not the digit count of the block length")
                # the address sent: the running address variable itself, or a per-block copy of it
                addr_var = defs.get(p_) if (defs.get(p_) or "").isidentifier() else (p_ if p_.isidentifier() else None)
                if addr_var is None:
                    why.append("address variable not set per block")
                any_adv = [n for n in ast.walk(loop) if isinstance(n, ast.AugAssign) and src_of(n.target) == (addr_var or "?")] if loop is not None else []
                adv = [n for n in any_adv if isinstance(n.op, ast.Add) and src_of(n.value) == n_]
                bound_in_loop = loop is not None and addr_var is not None and any(
                    isinstance(n, ast.Name) and n.id == addr_var and isinstance(n.ctx, ast.Store) for n in ast.walk(loop))
                if not any_adv and addr_var is not None and loop is not None and not bound_in_loop:
                    why.append("the address sent is the same for every block: nothing in the block loop binds or advances it")
                elif not any_adv:
                    missing.append("no running address variable updated in the block loop")
                elif not adv:
                    why.append("the address does not advance by the block length")
                any_init = [n for n in body_nodes(sd) if isinstance(n, ast.Assign) and src_of(n.targets[0]) == (addr_var or "?")]
                init = [n for n in any_init if src_of(n.value) == start_name]
                if not any_init:
                    missing.append("the address variable is not initialised by an assignment")
                elif not init:
                    why.append("the address does not start at start_addrs")
                pay = defs.get(d_, "")
                if "join" not in pay:
                    # or: a slice of length n of the whole channel's joined bit string, at an offset that advances by n from 0
                    m_ = re.fullmatch(r"(\w+)\[(\w+):(\w+)\+(\w+)\]", pay)
                    ok_slice = False
                    if m_ and m_.group(2) == m_.group(3) and m_.group(4) == n_:
                        whole, off = m_.group(1), m_.group(2)
                        joined = [n for n in body_nodes(sd) if isinstance(n, ast.Assign) and src_of(n.targets[0]) == whole and "join" in src_of(n.value)]
                        off0 = [n for n in body_nodes(sd) if isinstance(n, ast.Assign) and src_of(n.targets[0]) == off and src_of(n.value) == "0"]
                        offadv = [n for n in ast.walk(loop) if isinstance(n, ast.AugAssign) and isinstance(n.op, ast.Add) and src_of(n.target) == off and src_of(n.value) == n_]
                        ok_slice = bool(joined and off0 and offadv)
                    if not ok_slice:
                        why.append("payload is not the joined bit characters of the block")
            else:
                why.append("command does not have the six fields ch, addr, n, #k n data")
            if not ok and _framing_by_value(ctx, ci.methods["set_data"]):
                pass        # a field holds a piece built elsewhere (`{block}` = '#kn' + payload from a helper): decided on the value of the whole string
            elif missing and not why:
                # the block loop is written in another idiom (blocks precomputed, addresses from a list ...): decide on the value of the
                # command string if possible, otherwise say that it is not decided - a missing match is not a violation
                if not _framing_by_value(ctx, ci.methods["set_data"], strict=True):
                    ctx.unknown("C20.3", sd, q[0], f"set_data framing `{src_of(js)[:90]}`", "block loop not in a recognised form: " + "; ".join(missing))
            else:
                ctx.check("C20.3", not why, sd, q[0], f"set_data framing `{src_of(js)[:90]}`", "#<k><n><n bits> at consecutive addresses", "; ".join(why))
    # the memory guard of set_data counts BITS PER CHANNEL: applied to the raw argument, len() counts the per-channel rows of 2-D data
    # (or the characters of a string) - data that fits is cut by rows, data that does not is written past the end
    sd0 = ci.methods.get("set_data")
    if sd0 is not None:
        ldefs = {}
        for n in body_nodes(sd0):
            if isinstance(n, ast.Assign) and len(n.targets) == 1 and isinstance(n.targets[0], ast.Name):
                ldefs.setdefault(n.targets[0].id, []).append(n.value)

        def expand(e):
            # a local assigned once stands for its value (n_data = len(data); max_len = self.MAX_MEMORY_LEN - start_addrs + 1)
            if isinstance(e, ast.Name) and len(ldefs.get(e.id, [])) == 1:
                return src_of(ldefs[e.id][0])
            return src_of(e)
        guards = [n for n in body_nodes(sd0) if isinstance(n, ast.Compare) and len(n.comparators) == 1 and "MAX_MEMORY_LEN" in expand(n.left) + expand(n.comparators[0])]
        if not guards:
            ctx.unknown("C20.3", sd0, sd0.node, "set_data memory guard", "no comparison with MAX_MEMORY_LEN")
        for g in guards:
            side = g.left if "MAX_MEMORY_LEN" not in expand(g.left) else g.comparators[0]
            txt = expand(side).replace(" ", "")
            conv = [n for n in body_nodes(sd0) if isinstance(n, ast.Assign) and src_of(n.targets[0]) == "data" and any(k in src_of(n.value) for k in ("np.array", "np.asarray", "str2array", "np.tile", "atleast_2d"))]
            # len() / size of the whole container: rows (channels) or all elements - never the bits of one channel once there are rows
            raw = txt in ("len(data)", "data.size", "np.size(data)", "data.__len__()")
            ctx.check("C20.3", not raw, sd0, g, f"set_data memory guard: `{src_of(g)}`"[:160], "bits per channel against the room left",
                      "the guard measures the raw argument: for per-channel rows `len(data)` is the number of channels and for a string the number of characters - 2-bit rows for three channels "
                      "at the last two addresses lose a channel, six bits at the last three addresses are written past the end of the memory")
        # the room itself: addresses start_addrs .. MAX_MEMORY_LEN hold MAX_MEMORY_LEN - start_addrs + 1 bits.  One less and a request
        # that ends exactly on the last cell is cut (and a one-bit write at the last address becomes a zero-length block)
        def lin(e, depth=0):
            """(coefficient of MAX_MEMORY_LEN, coefficient of start_addrs, constant) of an affine expression, or None"""
            if depth > 6:
                return None
            if isinstance(e, ast.NamedExpr):
                return lin(e.value, depth + 1)
            if isinstance(e, ast.Constant) and isinstance(e.value, int) and not isinstance(e.value, bool):
                return (0, 0, e.value)
            if isinstance(e, ast.Attribute) and e.attr == "MAX_MEMORY_LEN":
                return (1, 0, 0)
            if isinstance(e, ast.Name):
                if e.id == "start_addrs":
                    return (0, 1, 0)
                if len(ldefs.get(e.id, [])) == 1:
                    return lin(ldefs[e.id][0], depth + 1)
                return None
            if isinstance(e, ast.BinOp) and isinstance(e.op, (ast.Add, ast.Sub)):
                l, r = lin(e.left, depth + 1), lin(e.right, depth + 1)
                if l is None or r is None:
                    return None
                sg = 1 if isinstance(e.op, ast.Add) else -1
                return tuple(a_ + sg * b_ for a_, b_ in zip(l, r))
            if isinstance(e, ast.UnaryOp) and isinstance(e.op, ast.USub):
                v = lin(e.operand, depth + 1)
                return None if v is None else tuple(-a_ for a_ in v)
            return None
        for n in ast.walk(sd0.node):
            if isinstance(n, ast.NamedExpr) and isinstance(n.target, ast.Name):
                ldefs.setdefault(n.target.id, []).append(n.value)
        for g in guards:
            if len(g.ops) != 1 or not isinstance(g.ops[0], (ast.Gt, ast.Lt, ast.GtE, ast.LtE)):
                continue
            room_side = g.comparators[0] if "MAX_MEMORY_LEN" in expand(g.comparators[0]) else g.left
            if any(isinstance(x, ast.Name) and x.id == "start_addrs" for x in ast.walk(g)) and not any(isinstance(x, ast.Name) and x.id == "data" for x in ast.walk(g)) \
                    and "data" not in expand(g.left) + expand(g.comparators[0]):
                continue          # the range test of the start address itself
            v = lin(room_side)
            if v is None or v[0] != 1 or v[1] != -1:
                continue
            strict = isinstance(g.ops[0], (ast.Gt, ast.Lt))
            want_c = 1 if strict else 2           # n > room  <=>  n >= room + 1
            ctx.check("C20.3", v[2] == want_c, sd0, g, f"set_data memory guard: room left = MAX_MEMORY_LEN - start_addrs + 1", "exactly the cells start_addrs .. MAX_MEMORY_LEN",
                      f"the data are compared with MAX_MEMORY_LEN - start_addrs {v[2]:+d}: " + ("one bit too few - a request that ends exactly on the last cell is cut with a warning, and a one-bit write at the last "
                      "address becomes a zero-length block" if v[2] < want_c else "too many - data are written past the end of the memory"))
    # ---------------- C20.4 every channel is transferred from the same start address: the running address (advanced block by block inside
    # the inner loop) is set back at the top of the channel loop.  Initialised once, ahead of the channel loop, the second channel is
    # read (written) where the first one ended: get_data(size, start, CHs=[1, 2]) returns for channel 2 the cells start+size .. and,
    # near the end of the memory, addresses beyond it
    for mname in ("get_data", "set_data"):
        mm = ci.methods.get(mname)
        if mm is None:
            continue
        scopes_ = [mm] + [ci.methods[n_.func.attr] for n_ in body_nodes(mm) if isinstance(n_, ast.Call) and isinstance(n_.func, ast.Attribute) and isinstance(n_.func.value, ast.Name)
                          and n_.func.value.id == "self" and n_.func.attr in ci.methods and n_.func.attr not in ("_query", "_check_channels")]
        judged = False
        for sc in scopes_:
            for par in ast.walk(sc.node):
                for ch_ in ast.iter_child_nodes(par):
                    ch_._parent = par
            for n_ in ast.walk(sc.node):
                if not (isinstance(n_, ast.AugAssign) and isinstance(n_.op, ast.Add) and isinstance(n_.target, ast.Name)):
                    continue
                loops_ = [p_ for p_ in _parents(n_) if isinstance(p_, (ast.For, ast.While))]
                if not loops_ or not any(isinstance(x, ast.Call) and src_of(x.func) == "self._query" and any(isinstance(y, ast.Name) and y.id == n_.target.id for y in ast.walk(x)) for x in ast.walk(loops_[0])):
                    continue
                judged = True
                if len(loops_) < 2:
                    ctx.holds("C20.4", sc, n_, f"{mname}: running address `{n_.target.id}` of one channel's transfer", "one block loop per call: the address starts from the argument")
                    continue
                outer, inner_ = loops_[1], loops_[0]
                resets = [a_ for a_ in ast.walk(outer) if isinstance(a_, ast.Assign) and any(isinstance(t_, ast.Name) and t_.id == n_.target.id for t_ in a_.targets)
                          and not any(p_ is inner_ for p_ in _parents(a_))]
                ctx.check("C20.4", bool(resets), sc, n_, f"{mname}: running address `{n_.target.id}` set back for every channel", "assigned inside the channel loop, ahead of the block loop",
                          f"`{n_.target.id}` is advanced block by block but never set back inside the channel loop: channel k is transferred from start_addrs + (k-1)*size instead of start_addrs - "
                          f"{mname} over CHs=[1, 2] addresses other cells for channel 2 than for channel 1 (and, near the end of the memory, cells beyond it: ':DIG3:PATT:DATA? 2097153,1024')")
        if not judged:
            ctx.holds("C20.4", mm, mm.node, f"{mname}: no running address advanced inside a block loop", "addresses computed per block")
    # ---------------- C20.4 read-back reassembly
    gd = ci.methods.get("get_data")
    if gd is None:
        ctx.unknown("C20.4", None, None, "get_data", "missing")
    else:
        scopes = [gd]
        for n_ in body_nodes(gd):
            if isinstance(n_, ast.Call) and isinstance(n_.func, ast.Attribute) and isinstance(n_.func.value, ast.Name) and n_.func.value.id == "self" and n_.func.attr in ci.methods \
                    and n_.func.attr not in ("_query", "_check_channels") and ci.methods[n_.func.attr] not in scopes:
                scopes.append(ci.methods[n_.func.attr])
        inner = None
        gd_scope = gd
        for sc in scopes:
            appends = [n for n in body_nodes(sc) if isinstance(n, ast.Call) and isinstance(n.func, ast.Attribute) and n.func.attr == "append" and in_loop(n)]
            for a in appends:
                loops = [p for p in _parents(a) if isinstance(p, ast.For)]
                # the per-block list: appended once per block read (the loop whose body sends the read command)
                sends = any(isinstance(x, ast.Call) and src_of(x.func) == "self._query" for lp_ in loops[:1] for x in ast.walk(lp_))
                if sends and (len(loops) == 2 or sc is not gd):
                    inner, gd_scope = a, sc
        if inner is None and _reassembly_by_value(ctx, gd):
            pass
        elif inner is None:
            ctx.unknown("C20.4", gd, gd.node, "get_data block accumulation", "per-block append inside the channel loop not found")
        else:
            lst = src_of(inner.func.value)
            uses = [n for n in body_nodes(gd_scope) if isinstance(n, ast.Call) and any(isinstance(x, ast.Name) and x.id == lst for a_ in n.args for x in ast.walk(a_)) and n is not inner]
            joined = [n for n in uses if src_of(n.func).split(".")[-1] in ("concatenate", "hstack")]
            stacked = [n for n in uses if src_of(n.func).split(".")[-1] in ("array", "asarray", "stack", "vstack")]
            if joined and not stacked:
                ctx.holds("C20.4", gd, joined[0], f"get_data: blocks joined with {src_of(joined[0])[:60]}", "concatenation of the blocks read for one channel")
            elif stacked:
                ctx.violation("C20.4", gd, stacked[0], f"get_data: blocks combined with {src_of(stacked[0])[:60]}",
                              "blocks of 1024 bits and a shorter last block are stacked as rows instead of concatenated: numpy raises on the ragged list (or returns a 2-D array), so the written bits are not returned")
            else:
                ctx.unknown("C20.4", gd, gd.node, "get_data reassembly", "no concatenation of the per-channel block list found")
    # ---------------- C20.5 SYNC
    fs_ = pkg.func("lab.SYNC")
    guard = None
    for ifn, test, excs in find_raise_guards(fs_):
        s = src_of(test).replace(" ", "")
        if re.fullmatch(r"len\(signal_rx\)<len\(signal_tx\)|signal_rx\.size<signal_tx\.size|len\(signal_tx\)>len\(signal_rx\)", s):
            guard = ifn
    corr = [n for n in body_nodes(fs_) if isinstance(n, ast.Assign) and "fftconvolve" in src_of(n.value) or isinstance(n, ast.Assign) and "correlate" in src_of(n.value)]
    ok = guard is not None and corr and guard.lineno < corr[0].lineno
    it = Interp(pkg, assumptions={"signal_rx": ("inst", "numpy.ndarray", "ndarray"), "slots_tx": ("inst", "numpy.ndarray", "ndarray"), "sps": "notnone"})
    it.keep_cond_forms = True
    outs = it.run(fs_)
    if not ok:
        # any spelling: a raising exit whose condition compares the length of the received record with the length of the pattern,
        # ahead of the correlation call
        def is_len_of(v, what):
            if not isinstance(v, Form):
                return False
            for a in v.atoms(deep=False):
                inner = None
                if a[0] == "fn" and a[1] in ("len", "size", "siglen") and a[2]:
                    inner = a[2][0]
                elif a[0] == "attr" and a[2] == "size":
                    inner = a[1]
                elif a[0] == "fn" and a[1] == "int" and a[2]:
                    if is_len_of(a[2][0], what):
                        return True
                if isinstance(inner, Form) and what in inner.syms():
                    return True
                if a[0] == "sym" and a[1] in (what + ".size", what + ".shape"):
                    return True
            return False
        corr_line = min([r.node.lineno for r in it.calls if r.callee and r.callee.split(".")[-1] in ("fftconvolve", "correlate", "convolve")] or [10 ** 9])
        for o in outs:
            if o.kind != "raise" or getattr(o.node, "lineno", 10 ** 9) > corr_line:
                continue
            for txt, pol in o.conds:
                cf = it.cond_forms.get(txt)
                ca = cf.single_atom() if isinstance(cf, Form) else None
                if ca is not None and ca[0] == "fn" and ca[1] in ("gt", "ge") and len(ca[2]) == 2:
                    big, small = (ca[2][0], ca[2][1]) if pol else (ca[2][1], ca[2][0])
                    if is_len_of(big, "slots_tx") and is_len_of(small, "signal_rx"):
                        ok, guard = True, o.node
    ctx.check("C20.5", bool(ok), fs_, guard or fs_.node, "SYNC: record shorter than the pattern", "rejected before the correlation", "a received record shorter than the pattern is not rejected before correlating")
    rets = [o for o in outs if o.kind == "return"]
    # the lag window: correlating rx[:W] with the l-sample pattern in 'valid' mode searches the lags 0 .. W-l; every delay below one
    # pattern length (0 .. l-1) must be among them, i.e. W >= 2*l - 1 for every sps
    lag_window = None
    corr_calls = [r for r in it.calls if r.callee and r.callee.split(".")[-1] in ("fftconvolve", "correlate", "convolve") and len(r.args) >= 2]
    mode = corr_calls[0].arg(2, "mode") if len(corr_calls) == 1 else None
    if len(corr_calls) == 1 and isinstance(mode, Const) and mode.v == "valid":
        a0, a1 = corr_calls[0].args[0], corr_calls[0].args[1]
        wa = a0.single_atom() if isinstance(a0, Form) else None
        pa = a1.single_atom() if isinstance(a1, Form) else None
        L = None
        pat = pa[1] if (pa is not None and pa[0] == "idx" and isinstance(pa[1], Form)) else (a1 if pa is not None and pa[0] == "fn" else None)   # reversed copy (convolution) or the pattern itself (correlation)
        if pat is not None:
            pa = ("idx", pat)
            L = Form.atom(("attr", pa[1], "size"))
            for cand in (Form.atom(("attr", pa[1], "size")), mk_fn("len", [pa[1]]), mk_fn("size", [pa[1]])):
                if isinstance(wa, tuple) and wa[0] == "idx" and isinstance(wa[2], SliceV) and isinstance(wa[2].hi, Form) and any(vk(Form.atom(x)) == vk(cand) for x in wa[2].hi.atoms()):
                    L = cand
        if wa is not None and wa[0] == "idx" and isinstance(wa[2], SliceV) and isinstance(wa[2].hi, Form) and L is not None \
                and (isinstance(wa[2].lo, Const) and wa[2].lo.v is None or (isinstance(wa[2].lo, Form) and wa[2].lo.is_zero())):
            unint = _unint
            D = wa[2].hi.subst(unint) - 2 * L.subst(unint)
            lag_window = (wa[2].hi.subst(unint), L.subst(unint))
            vals = []
            for sp in (1, 2, 16):
                d_ = D.subst(lambda a, sp=sp: Form.num(sp) if a == ("sym", "sps") else None)
                vals.append(d_.rational() if isinstance(d_, Form) else None)
            if all(v is not None for v in vals):
                ctx.check("C20.5", all(v >= -1 for v in vals), fs_, corr_calls[0].node, f"SYNC: lag window rx[:{wa[2].hi!r}]"[:160], "covers every delay 0 .. l-1 (W >= 2*l - 1)",
                          f"the correlation only searches the lags 0 .. W-l with W - 2*l = {D!r}: delays in the last part of the pattern are never found (the index returned for them is wrong, silently)")
            else:
                ctx.unknown("C20.5", fs_, corr_calls[0].node, "SYNC: lag window", f"window length {wa[2].hi!r} not comparable with the pattern length")
        elif wa is not None and wa[0] == "sym":
            ctx.holds("C20.5", fs_, corr_calls[0].node, "SYNC: lag window = the whole record", "covers every delay the record allows")
        else:
            ctx.unknown("C20.5", fs_, corr_calls[0].node, "SYNC: lag window", "window of the correlation not identified")
    if len(rets) == 1 and isinstance(rets[0].value, TupleV) and len(rets[0].value.items) == 2:
        sig, idx = rets[0].value.items
        ia = idx.single_atom() if isinstance(idx, Form) else None
        while ia is not None and ia[0] == "fn" and ia[1] in ("int", "numpy.int64", "item") and ia[2]:
            ia = ia[2][0].single_atom() if isinstance(ia[2][0], Form) else None       # int(np.argmax(...)): the same index as a Python int
        ok_i = ia is not None and ia[0] == "fn" and ia[1] == "argmax"
        ctx.check("C20.5", ok_i, fs_, rets[0].node, f"SYNC: returned index = {idx!r}"[:160], "argmax of the correlation", "the returned index is not the argmax of the correlation")
        # the candidates are the delays 0 .. l-1 and no more: on a repeated pattern lag l is the alignment of lag 0 one pattern later and
        # ties with it, so with noise it wins about half the time - index l instead of 0, and nothing left of the record after it
        if ok_i and lag_window is not None and ia[2] and isinstance(ia[2][0], Form):
            W_, L_ = lag_window
            oa = ia[2][0].single_atom()
            if oa is not None and oa[0] == "idx" and isinstance(oa[2], SliceV) and isinstance(oa[2].hi, Form) \
                    and (isinstance(oa[2].lo, Const) and oa[2].lo.v is None or (isinstance(oa[2].lo, Form) and oa[2].lo.is_zero())):
                nl = oa[2].hi.subst(_unint)                    # argmax(corr[:m]): m candidates
                if isinstance(nl, Form) and nl.rational() is not None and nl.rational() < 0:
                    # corr[:-k]: "all lags but the last k".  How many lags there are depends on the record (min(len, 2l) - l + 1): for a
                    # record of two patterns or more the last one is lag l, for a shorter record it is a legitimate delay < l
                    ctx.violation("C20.5", fs_, rets[0].node, "SYNC: candidate delays",
                                  f"the search covers every lag but the last {-int(nl.rational())}: that is the delays 0 .. l-1 only when the record holds two patterns; for a record between one and two "
                                  "patterns long the dropped lag is the true delay (record of l + d samples delayed by d: index d-1 is returned)")
                    nl = None
            else:
                nl = W_ - L_ + 1                               # 'valid' mode: W - l + 1 lags
            ex = []
            for sp in ((1, 2, 16) if nl is not None else ()):
                d_ = (nl - L_).subst(lambda a, sp=sp: Form.num(sp) if a == ("sym", "sps") else None)
                ex.append(d_.rational() if isinstance(d_, Form) else None)
            if nl is None:
                pass
            elif all(v is not None for v in ex):
                ctx.check("C20.5", all(v <= 0 for v in ex), fs_, rets[0].node, "SYNC: candidate delays", "0 .. l-1 only",
                          f"the search covers {nl!r} lags for a pattern of l = {L_!r} samples: lag l (the alignment of lag 0 one pattern later) is a candidate, ties with lag 0 on a repeated "
                          "pattern and wins about half the time under noise - delay 0 is reported as l and the returned signal is empty")
            else:
                ctx.unknown("C20.5", fs_, rets[0].node, "SYNC: candidate delays", f"number of lags {nl!r} not comparable with the pattern length")
        d = sig.fields.get("signal") if isinstance(sig, ObjV) else None
        da = d.single_atom() if isinstance(d, Form) else None
        ok_s = da is not None and da[0] == "idx" and isinstance(da[2], SliceV) and da[2].lo == idx
        ctx.check("C20.5", ok_s, fs_, rets[0].node, "SYNC: returned signal starts at the found index", "signal_rx[i:...]", "the returned signal is not sliced from the synchronisation index")
    else:
        ctx.unknown("C20.5", fs_, fs_.node, "SYNC return", "not a (signal, index) pair")
    ctx.require_min("C20.1", 40)
    ctx.require_min("C20.2", 5)
    ctx.require_min("C20.3", 1)
    ctx.require_min("C20.4", 1)
    ctx.require_min("C20.5", 4)


def _unint(a):
    if a[0] == "fn" and a[1] == "int" and len(a[2]) == 1 and isinstance(a[2][0], Form):
        return a[2][0].subst(_unint)          # lengths are integers already
    return None


def _offset_loop_framing(sd, loop, slots, defs, start_name):
    """the write loop in its second idiom - the channel's bits held as ONE sequence W and cut by a running offset:
        for i in range(0, len(W), K):  B = W[i:i+K];  p = start + i;  n = len(B);  k = len(str(n));  send(ch, p, n, k, n, B)
    -> list of discrepancies ([] = framing holds), or None when the loop is not of this shape"""
    it_ = loop.iter
    if not (isinstance(it_, ast.Call) and src_of(it_.func) == "range" and len(it_.args) == 3 and src_of(it_.args[0]) == "0" and isinstance(loop.target, ast.Name)):
        return None
    i = loop.target.id
    stop, K = src_of(it_.args[1]).replace(" ", ""), src_of(it_.args[2]).replace(" ", "")
    m = re.fullmatch(r"len\((\w+)\)|(\w+)\.size", stop)
    if not m:
        return None
    W = m.group(1) or m.group(2)
    ch, p_, n_, k_, n2, d_ = slots
    why = []
    B = d_ if defs.get(d_, "").startswith(W + "[") else None
    payload_joined = False
    if B is None and "join" in defs.get(d_, ""):
        mj = re.search(r"join\((\w+)", defs[d_])
        if mj and defs.get(mj.group(1), "").startswith(W + "["):
            B, payload_joined = mj.group(1), True
    if B is None:
        return None
    if defs.get(B) != f"{W}[{i}:{i}+{K}]":
        why.append(f"the block `{B}` is not {W}[{i}:{i}+{K}]: blocks overlap or leave gaps")
    if n_ != n2:
        why.append("the length field and the header's length differ")
    if defs.get(n_) not in (f"len({B})", f"{B}.size"):
        why.append(f"`{n_}` is not the block's size")
    if defs.get(k_) != f"len(str({n_}))":
        why.append(f"`{k_}` is not the digit count of the block length")
    addr = defs.get(p_, p_ if not p_.isidentifier() else None)
    if addr is None or addr.replace(" ", "") not in (f"{start_name}+{i}", f"{i}+{start_name}"):
        why.append(f"the address is not {start_name} + the block's offset")
    # W is the channel's bits as characters (a string sliced into sub-strings) or an array whose blocks are joined
    wdefs = [src_of(n.value) for n in body_nodes(sd) if isinstance(n, ast.Assign) and src_of(n.targets[0]) == W]
    if not payload_joined and not any(("join" in w or "decode" in w or "tobytes" in w or "tostring" in w) for w in wdefs):
        why.append("payload is not the bit characters of the block")
    return why


def _framing_by_value(ctx, sd, strict=False):
    """C20.3 decided on the value of the command string, wherever it is built (helper, static method, comprehension):
    ':DIG' ch ':PATT:DATA ' addr ',' n ',#' k n payload  with  payload = ''.join(X as str), n = size of X, k = len(str(n)) and the
    address either a running variable that starts at start_addrs and advances by n, or the running sum of the block sizes
    started at start_addrs (itertools.accumulate(sizes, initial=start_addrs)) paired with the blocks.  True when decided."""
    pkg = ctx.pkg
    it = Interp(pkg, self_class="PPG3204", assumptions={"data": ("inst", "numpy.ndarray", "ndarray")})
    try:
        it.run(sd)
    except Exception:
        return False
    sites = []
    for r in it.calls:
        if r.callee and r.callee.endswith("._query") and r.args and isinstance(r.args[0], Form):
            a = r.args[0].single_atom()
            if a and a[0] == "fn" and a[1] == "fstr" and any(isinstance(x, Const) and isinstance(x.v, str) and "PATT:DATA " in x.v for x in a[2]):
                sites.append((r, a))
    if len(sites) != 1:
        return False
    r, a = sites[0]
    vals = []
    for x in a[2]:
        xa = x.single_atom() if isinstance(x, Form) else None
        if xa and xa[0] == "fn" and xa[1] == "fmt":
            vals.append(xa[2][0])
    why, why_addr = [], []
    if len(vals) != 6:
        why.append("command does not have the six fields ch, addr, n, #k n data")
    else:
        ch, addr, n_, k_, n2, pay = vals
        pa = pay.single_atom() if isinstance(pay, Form) else None
        X = None
        if pa and pa[0] == "fn" and pa[1] == "strjoin" and len(pa[2]) == 2 and isinstance(pa[2][0], Const) and pa[2][0].v == "":
            X = pa[2][1]
            xa = X.single_atom() if isinstance(X, Form) else None
            while xa and ((xa[0] == "fn" and xa[1] == "astype" and xa[2]) or (xa[0] == "meth" and xa[2] == "astype")):
                X = xa[2][0] if xa[0] == "fn" else xa[1]
                xa = X.single_atom() if isinstance(X, Form) else None
        if X is None:
            why.append("payload is not the joined bit characters of the block")
        else:
            na = n_.single_atom() if isinstance(n_, Form) else None
            is_size = bool(na) and ((na[0] == "fn" and na[1] in ("size", "len", "siglen") and na[2] and vk(na[2][0]) == vk(X))
                                    or (na[0] == "attr" and na[2] == "size" and vk(na[1]) == vk(X)))
            if not is_size:
                xa2 = X.single_atom() if isinstance(X, Form) else None
                if xa2 is not None and xa2[0] == "idx" and isinstance(xa2[2], SliceV) and isinstance(xa2[2].lo, Form) and isinstance(xa2[2].hi, Form) \
                        and (isinstance(xa2[2].step, Const) and xa2[2].step.v is None) and vk(xa2[2].hi - xa2[2].lo) == vk(n_):
                    is_size = True          # the block is data[a : a + n]: n elements (the producer keeps a + n inside the data)
            if not is_size:
                why.append("the length field is not the block's size")
        if vk(n_) != vk(n2):
            why.append("the length field and the header's length differ")
        if vk(k_) != vk(mk_fn("len", [mk_fn("str", [n_])])):
            why.append("the header digit count is not len(str(n))")
        aa = addr.single_atom() if isinstance(addr, Form) else None
        start = S("start_addrs")
        if aa and aa[0] == "loop":
            var = aa[1].split("@")[0]
            # "in the loop" = in the block loop, the innermost loop around the command; `p = start_addrs` in the channel loop around it starts every channel
            from ..rules import parents
            inner = next((p_ for p_ in parents(r.node) if isinstance(p_, (ast.For, ast.While))), None)
            in_block_loop = (lambda st_: any(p_ is inner for p_ in parents(st_))) if inner is not None else in_loop
            inits = [(v, st_) for f_, st_, nm, v, c_, d_ in it.assign_log if nm == var and not in_block_loop(st_)]
            upds = [v for f_, st_, nm, v, c_, d_ in it.assign_log if nm == var and in_block_loop(st_)]
            if inits and isinstance(inits[-1][1], ast.Assign) and isinstance(inits[-1][1].value, ast.Name) and inits[-1][1].value.id == "start_addrs" \
                    and inits[-1][1] in body_nodes(sd):
                inits = [start]         # the (clamped) start address as it stands at that point
            else:
                inits = [v for v, st_ in inits]
            if not (inits and vk(inits[-1]) == vk(start)):
                why_addr.append("the address does not start at start_addrs")
            if not (upds and all(isinstance(u, Form) and vk(u - addr) == vk(n_) for u in upds)):
                why_addr.append("the address does not advance by the block length")
        elif aa and aa[0] == "fn" and aa[1] == "elem" and isinstance(aa[2][0], Form) and (aa[2][0].single_atom() or ("",))[0] == "fn" \
                and aa[2][0].single_atom()[1] == "itertools.accumulate":
            acc = aa[2][0].single_atom()
            ini = dict(acc[3]).get("initial")
            seq = acc[2][0] if acc[2] else None
            sa = seq.single_atom() if isinstance(seq, Form) else None
            if ini is None or vk(ini) != vk(start):
                why_addr.append("the address does not start at start_addrs")
            if not (sa and sa[0] == "fn" and sa[1] == "listcomp" and vk(sa[2][0]) == vk(n_)):
                why_addr.append("the address does not advance by the block length")
        else:
            why_addr.append("address variable not set per block")
    if strict and why_addr and not why:
        return False          # the address sequence is produced in yet another idiom: the caller reports "not decided"
    why = why + why_addr
    ctx.check("C20.3", not why, sd, r.node, f"set_data framing `{src_of(r.node)[:90]}`", "#<k><n><n bits> at consecutive addresses (decided on the value of the command string)", "; ".join(why))
    return True


def _reassembly_by_value(ctx, gd):
    """C20.4 for a comprehension-style read-back: the list of blocks read for one channel must be joined by concatenation"""
    pkg = ctx.pkg
    it = Interp(pkg, self_class="PPG3204", assumptions={"size": ("inst", "int"), "start_addrs": ("inst", "int")})
    try:
        outs = it.run(gd)
    except Exception:
        return False
    rets = [o for o in outs if o.kind == "return" and isinstance(o.value, Form)]
    if len(rets) != 1:
        return False

    def reads(v):
        return isinstance(v, Form) and any(x[0] == "fn" and x[1] == "fstr" and any(isinstance(p_, Const) and isinstance(p_.v, str) and "PATT:DATA?" in p_.v for p_ in x[2]) for x in v.atoms())
    atoms = rets[0].value.atoms()
    def block_list(x):
        # a list with one entry per block read: the body holds the read command, the sequence iterated over does not
        # ... or a list made element by element from such a list ([parse(b) for b in answers]): still one entry per block
        if not (x[0] == "fn" and x[1] == "listcomp" and len(x[2]) == 2):
            return False
        if reads(x[2][0]) and not reads(x[2][1]):
            return True
        sa_ = x[2][1].single_atom() if isinstance(x[2][1], Form) else None
        return sa_ is not None and block_list(sa_)
    mapped_over = {vk(x[2][1]) for x in atoms if block_list(x) and isinstance(x[2][1], Form) and x[2][1].single_atom() is not None and block_list(x[2][1].single_atom())}
    per_block = [x for x in atoms if block_list(x) and not any(block_list(y) for y in x[2][0].atoms() if vk(Form.atom(y)) not in mapped_over) and vk(Form.atom(x)) not in mapped_over]
    if len(per_block) != 1:
        return False
    blk = Form.atom(per_block[0])
    users = [x for x in atoms if x[0] == "fn" and x[1] != "listcomp" and any(isinstance(a_, Form) and vk(a_) == vk(blk) for a_ in x[2])]
    names = {x[1].split(".")[-1] for x in users}
    if names & {"array", "asarray", "stack", "vstack"}:
        ctx.violation("C20.4", gd, rets[0].node, "get_data: blocks combined by stacking",
                      "blocks of 1024 bits and a shorter last block are stacked as rows instead of concatenated: numpy raises on the ragged list (or returns a 2-D array), so the written bits are not returned")
        return True
    if names & {"concatenate", "hstack"}:
        ctx.holds("C20.4", gd, rets[0].node, "get_data: blocks of one channel joined by concatenation", "concatenation of the blocks read for one channel (decided on the returned value)")
        return True
    return False


def vk(v):
    from ..forms import vkey
    return vkey(v)


def _parents(n):
    p = getattr(n, "_parent", None)
    while p is not None:
        yield p
        p = getattr(p, "_parent", None)
