"""Helpers shared by the per-property rule modules."""
from __future__ import annotations

import ast
from fractions import Fraction

from .absint import Interp, ObjV, Outcome
from .forms import Const, DictV, Form, TupleV
from .srcmodel import AnalysisError, FuncInfo, Package, src_of, norm_src


# ----------------------------------------------------------------------------- AST utilities
def walk_no_nested(node):
    """ast.walk that does not descend into nested function/class definitions or lambdas"""
    stack = [node]
    first = True
    while stack:
        n = stack.pop()
        if not first and isinstance(n, (ast.FunctionDef, ast.AsyncFunctionDef, ast.Lambda, ast.ClassDef)):
            continue
        first = False
        yield n
        stack.extend(ast.iter_child_nodes(n))


def body_nodes(fi: FuncInfo):
    body = fi.node.body if isinstance(fi.node.body, list) else [fi.node.body]
    for st in body:
        yield from walk_no_nested_keep(st)


def walk_no_nested_keep(node):
    stack = [node]
    while stack:
        n = stack.pop()
        yield n
        for ch in ast.iter_child_nodes(n):
            if isinstance(ch, (ast.FunctionDef, ast.AsyncFunctionDef, ast.Lambda, ast.ClassDef)):
                continue
            stack.append(ch)


def parents(node):
    p = getattr(node, "_parent", None)
    while p is not None:
        yield p
        p = getattr(p, "_parent", None)


def enclosing_stmt(node):
    n = node
    while n is not None and not isinstance(n, ast.stmt):
        n = getattr(n, "_parent", None)
    return n


def names_in(node):
    return {n.id for n in ast.walk(node) if isinstance(n, ast.Name)}


def calls_in(node):
    return [n for n in ast.walk(node) if isinstance(n, ast.Call)]


def raises_in(stmts):
    """exception class names raised directly in a statement list (not crossing nested ifs' else)"""
    out = []
    for s in stmts:
        for n in ast.walk(s):
            if isinstance(n, ast.Raise) and n.exc is not None:
                e = n.exc.func if isinstance(n.exc, ast.Call) else n.exc
                out.append(src_of(e))
    return out


def in_loop(node):
    return any(isinstance(p, (ast.For, ast.While)) for p in parents(node))


# ----------------------------------------------------------------------------- guards
class GuardEval:
    """Abstract evaluation of a comparison-only predicate over one real parameter.

    The predicate is piecewise constant with breakpoints at the numeric constants it compares
    the parameter (or abs(parameter)) with, so evaluating it on one representative of every
    order class (each breakpoint, each open interval between/around them) decides it for all
    reals.  Non-comparison sub-terms make the evaluation fail (-> None)."""

    def __init__(self, pkg: Package, fi: FuncInfo, param: str, env=None):
        self.pkg, self.fi, self.param = pkg, fi, param
        self.env = env or {}

    def breakpoints(self, test):
        pts = set()
        for n in ast.walk(test):
            v = self._num(n)
            if v is not None:
                pts.add(v)
                pts.add(-v)
        return pts

    def _num(self, n):
        if isinstance(n, ast.Constant) and isinstance(n.value, (int, float)) and not isinstance(n.value, bool):
            return Fraction(repr(n.value)) if isinstance(n.value, float) else Fraction(n.value)
        if isinstance(n, ast.UnaryOp) and isinstance(n.op, ast.USub):
            v = self._num(n.operand)
            return -v if v is not None else None
        if isinstance(n, ast.BinOp):
            a, b = self._val(n.left, None), self._val(n.right, None)
            if a is None or b is None:
                return None
            try:
                if isinstance(n.op, ast.Mult):
                    return a * b
                if isinstance(n.op, ast.Add):
                    return a + b
                if isinstance(n.op, ast.Sub):
                    return a - b
                if isinstance(n.op, ast.Div):
                    return a / b
                if isinstance(n.op, ast.Pow) and b.denominator == 1:
                    return a ** int(b)
            except Exception:
                return None
        if isinstance(n, ast.Name) and n.id in self.env:
            return self.env[n.id]
        return None

    def _val(self, n, x):
        """value of an arithmetic sub-expression at parameter value x (None = unsupported)"""
        if isinstance(n, ast.Name):
            if n.id == self.param:
                return x
            if n.id in self.env:
                return self.env[n.id]
            return None
        if isinstance(n, ast.Call) and len(n.args) == 1 and not n.keywords:
            f = src_of(n.func)
            if f in ("abs", "np.abs", "np.absolute", "numpy.abs", "math.fabs"):
                v = self._val(n.args[0], x)
                return abs(v) if v is not None else None
            return None
        if isinstance(n, ast.UnaryOp) and isinstance(n.op, ast.USub):
            v = self._val(n.operand, x)
            return -v if v is not None else None
        return self._num(n) if not isinstance(n, ast.BinOp) else self._binop(n, x)

    def _binop(self, n, x):
        a, b = self._val(n.left, x), self._val(n.right, x)
        if a is None or b is None:
            return None
        try:
            if isinstance(n.op, ast.Mult):
                return a * b
            if isinstance(n.op, ast.Add):
                return a + b
            if isinstance(n.op, ast.Sub):
                return a - b
            if isinstance(n.op, ast.Div):
                return a / b
            if isinstance(n.op, ast.Pow) and b.denominator == 1:
                return a ** int(b)
            if isinstance(n.op, ast.BitAnd) and a.denominator == 1 and b.denominator == 1:
                return Fraction(int(a) & int(b))
            if isinstance(n.op, ast.Mod) and b != 0:
                return a % b
        except Exception:
            return None
        return None

    def holds(self, test, x):
        """True/False, or None if the test is not a pure comparison predicate of the parameter"""
        if isinstance(test, ast.BoolOp):
            vals = [self.holds(v, x) for v in test.values]
            if any(v is None for v in vals):
                # unknown operands only matter if they can change the outcome
                known = [v for v in vals if v is not None]
                if isinstance(test.op, ast.Or) and any(known):
                    return True
                if isinstance(test.op, ast.And) and any(v is False for v in known):
                    return False
                return None
            return any(vals) if isinstance(test.op, ast.Or) else all(vals)
        if isinstance(test, ast.UnaryOp) and isinstance(test.op, ast.Not):
            v = self.holds(test.operand, x)
            return None if v is None else (not v)
        if isinstance(test, ast.Compare):
            left = self._val(test.left, x)
            if left is None:
                return None
            ok = True
            for op, c in zip(test.ops, test.comparators):
                r = self._val(c, x)
                if r is None:
                    return None
                res = {ast.Lt: left < r, ast.LtE: left <= r, ast.Gt: left > r, ast.GtE: left >= r,
                       ast.Eq: left == r, ast.NotEq: left != r}.get(type(op))
                if res is None:
                    return None
                ok = ok and res
                left = r
            return ok
        if isinstance(test, ast.Constant):
            return bool(test.value)
        return None


def representatives(points):
    pts = sorted(set(points))
    if not pts:
        return [Fraction(0)]
    reps = [pts[0] - 1]
    for i, p in enumerate(pts):
        reps.append(p)
        if i + 1 < len(pts):
            reps.append((p + pts[i + 1]) / 2)
    reps.append(pts[-1] + 1)
    return reps


def find_raise_guards(fi: FuncInfo):
    """every (if-node, polarity-chain test, exception names) whose body raises directly.
    Yields (ifnode, test, [exc names])."""
    for n in body_nodes(fi):
        if isinstance(n, ast.If):
            direct = [s for s in n.body if isinstance(s, ast.Raise)]
            if direct:
                excs = []
                for s in direct:
                    e = s.exc.func if isinstance(s.exc, ast.Call) else s.exc
                    excs.append(src_of(e) if e is not None else "")
                yield n, n.test, excs
        elif isinstance(n, ast.Assert):
            yield n, ast.UnaryOp(op=ast.Not(), operand=n.test), ["AssertionError"]


def guard_context(ifnode):
    """the chain of enclosing if-tests with polarity under which `ifnode` is evaluated, plus
    the negated tests of the elif chain it belongs to: [(test, polarity)]"""
    chain = []
    child = ifnode
    for p in parents(ifnode):
        if isinstance(p, ast.If):
            if any(child is s for s in p.body):
                chain.append((p.test, True))
            elif any(child is s for s in p.orelse):
                chain.append((p.test, False))
        elif isinstance(p, (ast.For, ast.While, ast.Try)):
            chain.append((None, None))
        elif isinstance(p, (ast.FunctionDef, ast.Lambda)):
            break
        child = p
    return chain


def _concrete_run(pkg, fi, pvals, assumptions=None, param_classes=None, valuation=None, self_class=None):
    """interpret `fi` with the given parameters bound to concrete values (constant propagation decides the guards they reach).
    -> (rejected?, exception of the deciding raise, deciding outcome, interpreter).  A value that flows into the computation
    without being rejected (including one the interpreter cannot push through the arithmetic) counts as accepted."""
    pvals = dict(pvals)
    kw = fi.node.args.kwarg.arg if fi.node.args.kwarg is not None else None
    names = {a.arg for a in list(fi.node.args.posonlyargs) + list(fi.node.args.args) + list(fi.node.args.kwonlyargs)}
    extra = [(k, v) for k, v in pvals.items() if k not in names and k != kw]
    if extra and kw is not None:
        # keyword-only options read from **kwargs
        for k, _ in extra:
            del pvals[k]
        prev = pvals.get(kw)
        items = list(prev.items) if isinstance(prev, DictV) else []
        pvals[kw] = DictV(items + [(Const(k), v) for k, v in extra])
    it = Interp(pkg, param_values=pvals, assumptions=dict(assumptions or {}), param_classes=dict(param_classes or {}),
                valuation=list(valuation or []), self_class=self_class)
    try:
        outs = it.run(fi)
    except AnalysisError:
        raise
    except Exception:
        return False, None, None, it
    rets = [o for o in outs if o.kind == "return"]
    raises = [o for o in outs if o.kind == "raise"]
    if not outs:
        return False, None, None, it
    import re as _re
    names = [k for k in pvals if isinstance(k, str) and k != kw] + [k for k, _v in extra]

    def about_probe(o):
        """does the exit hang on an UNDECIDED test that mentions a probed parameter (conds only list undecided tests)?"""
        return any(any(_re.search(r"\b" + _re.escape(nm) + r"\b", txt) for nm in names) for txt, _pol in o.conds)
    if rets:
        # accepted - unless a raising exit hangs on a test of the probed value that the interpreter could not decide (a type
        # predicate it does not know, say): then neither "accepted" nor "rejected" may be claimed
        for o in raises:
            if o.conds and all(any(_re.search(r"\b" + _re.escape(nm) + r"\b", txt) for nm in names) and _re.search(r"isinstance\(|issubdtype\(|\btype\(|\bcallable\(|\bnot in\b|\bin\b", txt)
                               for txt, _pol in o.conds):
                return None, o.exc, o, it
        return False, None, rets[0], it
    last = raises[-1] if raises else None
    if last is not None and not about_probe(last):
        return True, last.exc, last, it
    # no returning path, and the deciding raise hangs on a test of the probed value that was not decided: the analysis lost the
    # thread there, it did not see a rejection
    return None, last.exc if last else None, last, it


def _num(x):
    return Form.num(x if isinstance(x, (int, Fraction)) else Fraction(repr(x)))


def check_range_guard(ctx, rule, fi, param, reject, exc, what, env=None, accept_sample=(), context_ok=None, base=None, assumptions=None,
                      param_classes=None, valuation=None, integer=None):
    """Every value of `param` the oracle `reject` rejects must make `fi` raise `exc` (no returning path), and no value of
    `accept_sample` may be rejected.  Decided by constant propagation over one representative of every order class: the breakpoints
    are the oracle's own plus every constant the parameter is compared with on the interpreted paths (helpers inlined, temporaries
    and flipped comparisons followed), so between two breakpoints no comparison changes its outcome."""
    pkg = ctx.pkg
    valuation = list(valuation or [])
    for k, v in (env or {}).items():
        valuation.append((S("gv." + k), v))
        valuation.append((S(k), v))
    pts = set(Fraction(x) for x in reject.points)
    if integer is None:
        integer = all(Fraction(x).denominator == 1 for x in list(reject.points) + list(accept_sample)) and bool(accept_sample)
        ann = fi.node.args
        for a in list(ann.args) + list(ann.kwonlyargs):
            if a.arg == param and a.annotation is not None and src_of(a.annotation) == "int":
                integer = True
    seen = {}
    where = fi.node

    def probe(x):
        if x not in seen:
            pv = dict(base or {})
            pv[param] = _num(x)
            rej, e, out, it = _concrete_run(pkg, fi, pv, assumptions, param_classes, valuation)
            new = set()
            for c in it.cmp_points:
                new.add(c)
                new.add(-c)
            seen[x] = (rej, e, out, new)
        return seen[x]
    for _ in range(3):
        if integer:
            reps = sorted({q for p_ in pts for q in (p_ - 1, p_, p_ + 1) if q.denominator == 1} | {Fraction(int(p_)) for p_ in pts})
        else:
            reps = representatives(pts)
        before = set(pts)
        for x in reps:
            pts |= {c for c in probe(x)[3] if abs(c) < 10**9}
        if pts == before:
            break
    missed, wrong_exc = [], []
    undecided = [x for x in list(reps) + list(accept_sample) if probe(x)[0] is None]
    if undecided:
        ctx.unknown(rule, fi, fi.node, f"guard on `{param}`: {what}", f"not decided for {param} in {{{', '.join(str(float(x)) for x in undecided[:4])}}}: a test on the path could not be evaluated")
        return
    for x in reps:
        rej, e, out, _n = probe(x)
        if reject(x):
            if not rej:
                missed.append(x)
                if out is not None:
                    where = out.node
            elif e != exc:
                wrong_exc.append((x, e))
                where = out.node if out is not None else where
            elif where is fi.node and out is not None:
                where = out.node
    over = []
    for x in accept_sample:
        rej, e, out, _n = probe(Fraction(x))
        if rej:
            over.append(x)
            where = out.node if out is not None else where
    if missed:
        ctx.violation(rule, fi, where, f"guard on `{param}`: {what}", f"{param} in {{{', '.join(str(float(m)) for m in missed[:5])}}} is not rejected (documented: {what} -> {exc})")
    elif over:
        ctx.violation(rule, fi, where, f"guard on `{param}`: {what}", f"documented-valid value(s) {[str(o) for o in over[:3]]} of `{param}` are rejected")
    elif wrong_exc:
        ctx.violation(rule, fi, where, f"guard on `{param}`: {what}", f"{param}={float(wrong_exc[0][0])} raises {wrong_exc[0][1]} where {exc} is documented")
    else:
        ctx.holds(rule, fi, where, f"guard on `{param}`: {what}", f"-> {exc} on every rejected order class ({len(reps)} representatives), documented-valid samples accepted")
    return where


def check_pow2_guard(ctx, rule, fi, assumptions=None, extra=None, min_m=1, param_classes=None, nonpositive=False):
    """M is only tested by the power-of-two predicate: decided by interpreting the function for M = 1..17 and 24, 32, 48, 64
    (`nonpositive`: also 0, -2, -4 - not powers of two either; `0 & -1 == 0` lets 0 through the usual bit test)"""
    wrong, exc_bad, where = [], [], fi.node
    for m in ([0, -2, -4] if nonpositive else []) + list(range(1, 18)) + [24, 32, 48, 64]:
        pv = dict(extra or {})
        pv["M"] = Form.num(m)
        rej, e, out, _it = _concrete_run(ctx.pkg, fi, pv, assumptions or {}, param_classes)
        pow2 = m >= 1 and m & (m - 1) == 0 and m >= min_m
        if rej is None:
            ctx.unknown(rule, fi, fi.node, f"{fi.qualname}: M power-of-two guard", f"not decided for M = {m}: a test on the path could not be evaluated")
            return
        if m == 1 and min_m == 1:
            # 2**0: a one-slot "symbol" carries no bits and is outside every stated range of orders (M in {2, 4, ...}) - either answer
            if rej and e != "ValueError":
                exc_bad.append((m, e))
            continue
        if rej == pow2:
            wrong.append(m)
            where = out.node if out is not None else where
        elif rej and e != "ValueError":
            exc_bad.append((m, e))
            where = out.node if out is not None else where
        elif rej and where is fi.node and out is not None:
            where = out.node
    if wrong:
        ctx.violation(rule, fi, where, f"{fi.qualname}: M power-of-two guard", f"decides wrongly for M in {wrong[:6]}: exactly the orders that are not powers of two must raise ValueError")
    elif exc_bad:
        ctx.violation(rule, fi, where, f"{fi.qualname}: M power-of-two guard", f"M={exc_bad[0][0]} raises {exc_bad[0][1]}, documented ValueError")
    else:
        ctx.holds(rule, fi, where, f"{fi.qualname}: M power-of-two guard", "rejects exactly the non powers of two among 1..17, 24, 32, 48, 64 -> ValueError")


class Reject:
    """oracle predicate with its breakpoints"""

    def __init__(self, fn, points):
        self.fn, self.points = fn, points

    def __call__(self, x):
        return self.fn(x)


def isinstance_guard(fi: FuncInfo, param: str):
    """guards of the form `not isinstance(param, T)` -> yields (ifnode, type-source list, excs)"""
    for ifn, test, excs in find_raise_guards(fi):
        t = test
        neg = False
        if isinstance(t, ast.UnaryOp) and isinstance(t.op, ast.Not):
            t, neg = t.operand, True
        if neg and isinstance(t, ast.Call) and src_of(t.func) == "isinstance" and len(t.args) == 2 and src_of(t.args[0]) == param:
            yield ifn, t.args[1], excs


_TYPE_SAMPLES = {
    "int": lambda: Form.num(3), "float": lambda: Form.num(Fraction(5, 2)), "complex": lambda: Form.num(1, 1),
    "str": lambda: Const("zz"), "bool": lambda: Const(True), "None": lambda: Const(None),
    "list": lambda: TupleV([Form.num(1), Form.num(0)], "list"), "tuple": lambda: TupleV([Form.num(1), Form.num(0)], "tuple"),
    "dict": lambda: DictV([]),
    # wrongly typed AND falsy: a guard entered through the value's truth (`if bias:`) never sees them
    "empty str": lambda: Const(""), "empty list": lambda: TupleV([], "list"), "empty tuple": lambda: TupleV([], "tuple"),
}
_TYPE_FACTS = {"np.ndarray": ("inst", "numpy.ndarray", "ndarray"), "numpy.ndarray": ("inst", "numpy.ndarray", "ndarray"), "ndarray": ("inst", "numpy.ndarray", "ndarray")}


def check_type_guard(ctx, rule, fi, param, exc, must_accept, must_reject, interp: Interp | None = None, samples=None, base=None, assumptions=None,
                     param_classes=None, valuation=None):
    """a value of every type in `must_reject` makes `fi` raise `exc` with no returning path; a (valid) value of every type in
    `must_accept` reaches a return.  Decided by interpreting the function with the parameter bound to a representative of the type:
    isinstance tests are decided by the representative's type, wherever the test is written (helper, temporary, either polarity)."""
    pkg = ctx.pkg
    samples = dict(samples or {})
    where = fi.node
    probs = []

    def run(t):
        pv = dict(base or {})
        ass = dict(assumptions or {})
        if t in _TYPE_FACTS:
            names = {a.arg for a in list(fi.node.args.posonlyargs) + list(fi.node.args.args) + list(fi.node.args.kwonlyargs)}
            if param in names:
                ass[param] = _TYPE_FACTS[t]
            else:
                pv[param] = Form.sym("<ndarray>")
                ass["<ndarray>"] = _TYPE_FACTS[t]
        elif t in samples:
            v = samples[t]
            pv[param] = v if not isinstance(v, (int, float, Fraction)) or isinstance(v, bool) else _num(v)
        elif t in _TYPE_SAMPLES:
            pv[param] = _TYPE_SAMPLES[t]()
        else:
            return None
        return _concrete_run(pkg, fi, pv, ass, param_classes, valuation)
    for t in must_reject:
        r = run(t)
        if r is None:
            ctx.unknown(rule, fi, fi.node, f"type guard on `{param}`", f"no representative value for type {t}")
            return
        rej, e, out, _it = r
        if rej is None:
            ctx.unknown(rule, fi, fi.node, f"type guard on `{param}`", f"not decided for a {t} value: a test on the path could not be evaluated")
            return
        if not rej:
            probs.append(f"a {t} value of `{param}` is accepted but must raise {exc}")
            where = out.node if out is not None else where
        elif (e not in exc) if isinstance(exc, tuple) else (e != exc):
            probs.append(f"a {t} value of `{param}` raises {e}, documented {exc}")
            where = out.node if out is not None else where
        elif where is fi.node and out is not None:
            where = out.node
    for t in must_accept:
        r = run(t)
        if r is None:
            ctx.unknown(rule, fi, fi.node, f"type guard on `{param}`", f"no representative value for type {t}")
            return
        rej, e, out, _it = r
        if rej is None:
            ctx.unknown(rule, fi, fi.node, f"type guard on `{param}`", f"not decided for a {t} value: a test on the path could not be evaluated")
            return
        if rej:
            probs.append(f"documented-accepted type {t} of `{param}` is rejected ({e})")
            where = out.node if out is not None else where
    if probs:
        ctx.violation(rule, fi, where, f"type guard on `{param}`", "; ".join(probs[:3]))
    else:
        ctx.holds(rule, fi, where, f"type guard on `{param}`", f"{', '.join(must_reject)} -> {exc}; {', '.join(must_accept)} accepted")


def type_names(pkg, fi, node):
    """flatten a type expression to a set of type names: (int, float), Number + Array_Like, ..."""
    if isinstance(node, ast.Name):
        r = pkg.resolve_name(fi.module, fi, node.id)
        if r is None:
            if node.id in ("int", "float", "complex", "str", "bool", "list", "tuple", "dict"):
                return {node.id}
            return None
        if r.startswith("opticomlib."):
            parts = r.split(".")
            m = pkg.modules.get(parts[1])
            if m and parts[2] in m.classes:
                return {parts[2]}
            if m and parts[2] in m.globals:
                return type_names(pkg, _Scope(m), m.globals[parts[2]])
            return None
        return {r.replace("numpy.", "np.")}
    if isinstance(node, ast.Attribute):
        r = pkg.resolve_expr(fi.module, fi, node)
        return {r.replace("numpy.", "np.")} if r else {src_of(node)}
    if isinstance(node, ast.Tuple):
        out = set()
        for e in node.elts:
            t = type_names(pkg, fi, e)
            if t is None:
                return None
            out |= t
        return out
    if isinstance(node, ast.BinOp) and isinstance(node.op, ast.Add):
        a, b = type_names(pkg, fi, node.left), type_names(pkg, fi, node.right)
        if a is None or b is None:
            return None
        return a | b
    return None


class _Scope:
    def __init__(self, module):
        self.module = module
        self.parent = None
        self.locals = set()
        self.local_imports = {}


# ----------------------------------------------------------------------------- interpretation helpers
def interp_returns(pkg, qualname, **kw):
    fi = pkg.func(qualname)
    it = Interp(pkg, **kw)
    outs = it.run(fi)
    return fi, it, [o for o in outs if o.kind == "return"], [o for o in outs if o.kind == "raise"]


def single_return(ctx, rule, pkg, qualname, **kw):
    fi, it, rets, raises = interp_returns(pkg, qualname, **kw)
    if len(rets) != 1:
        ctx.unknown(rule, fi, fi.node, f"{qualname} returns", f"expected one return path under {kw.get('assumptions')}, found {len(rets)}")
        return fi, it, None
    return fi, it, rets[0]


def S(name):
    return Form.sym(name)


def C(dotted):
    return Form.atom(("c", dotted))


PI = C("scipy.constants.pi")


# ----------------------------------------------------------------------------- linear reductions
def pull_scalars(v, is_scalar_atom, fns=("mean", "sum")):
    """mean(c*s*x) -> c*s*mean(x) for numeric coefficients c and scalar atoms s (linearity of
    mean/sum); applied recursively so that r*mean(|x|^2) and mean(r*|x|^2) normalise alike."""
    from .forms import Form, mk_fn, fpow, subst_value

    def fn(a):
        if a[0] == "fn" and a[1] in fns and a[2] and isinstance(a[2][0], Form):
            inner = pull_scalars(a[2][0], is_scalar_atom, fns)
            total = Form()
            for m, c in inner.terms.items():
                sc = Form({(): c})
                rest = Form.num(1)
                for at, e in m:
                    if is_scalar_atom(at):
                        sc = sc * fpow(Form.atom(at), e)
                    else:
                        rest = rest * fpow(Form.atom(at), e)
                args = [rest] + [subst_value(x, fn) for x in a[2][1:]]
                total = total + sc * Form.atom(("fn", a[1], tuple(args), a[3]))
            return total
        return None
    if isinstance(v, Form):
        return v.subst(fn)
    return v


# ----------------------------------------------------------------------------- late binding of the global grid
def check_late_binding(ctx, rule, roots, eff=None):
    """No function reachable from `roots` may freeze a gv value: default arguments reading gv and memoised
    functions (functools.lru_cache / cache) that read gv are reported (the grid in force at call time must be used)."""
    from .effects import Effects
    eff = eff or Effects(ctx.pkg)
    seen = set()
    for q in roots:
        seen |= eff.reachable(q)
    bad = 0
    for q in sorted(seen):
        s = eff.sum[q]
        for d, txt in s.defaults_gv:
            bad += 1
            ctx.violation(rule, s.fi, s.fi.node, f"default argument `{txt}` of {q}", "a default argument reads gv when the function is defined: the grid in force at call time is ignored")
        if s.memoised is not None:
            reads = [(r, n) for r in eff.reachable(q) for n in eff.sum[r].reads_gv]
            if reads:
                bad += 1
                r, node = reads[0]
                ctx.violation(rule, s.fi, s.fi.node, f"{q} is cached ({src_of(s.memoised)}) but reads {src_of(node)}",
                              "a memoised helper captures the gv value of its first call with given arguments: after gv(...) is reconfigured the stale result is reused, "
                              "so the device no longer works on the sampling grid currently configured")
        for node, name in s.global_writes:
            if q.startswith("utils._Timer"):
                continue
            reads = [n for r in eff.reachable(q) for n in eff.sum[r].reads_gv]
            key_src = src_of(node.targets[0].slice) if isinstance(node, ast.Assign) and isinstance(node.targets[0], ast.Subscript) else ""
            if reads and "gv" not in key_src:
                bad += 1
                ctx.violation(rule, s.fi, node, f"{q} stores into module-level `{name}`", "module-level cache filled by a function that reads gv, keyed without it: results depend on call history across gv(...) changes")
    if not bad:
        ctx.holds(rule, None, None, f"{len(seen)} functions reachable from {', '.join(roots)}: gv read at call time", "no default-argument, memoised or module-level capture of gv")
    return eff


def run_relabelled(ctx, fn, mapping, *args, **kw):
    """run a rule function of another property and report its results under this property's rule ids: mapping {foreign id: own id}.
    Used where two properties state the same clause about the same code (the transform of C02 is the domain-transform clause of C01,
    the linear operator of C07/C08 is the fibre of C03's link): a change that breaks it is reported by each of them."""
    only = kw.pop("_only", False)
    n0 = len(ctx.results)
    counts0 = dict(ctx.counts)
    fn(ctx, *args, **kw)
    if only:
        # a whole check of the other property was run for one of its clauses: the rest of its results are not this property's business
        dropped = [r for r in ctx.results[n0:] if r.rule not in mapping]
        ctx.results[n0:] = [r for r in ctx.results[n0:] if r.rule in mapping]
        for k in {r.rule for r in dropped}:
            if k in counts0:
                ctx.counts[k] = counts0[k]
            else:
                ctx.counts.pop(k, None)
    for r in ctx.results[n0:]:
        if r.rule in mapping:
            own = mapping[r.rule]
            ctx.counts[own] = ctx.counts.get(own, 0) + 1
            ctx.counts[r.rule] = ctx.counts.get(r.rule, 1) - 1
            r.rule = own
    for k in list(mapping):
        if ctx.counts.get(k) == 0:
            ctx.counts.pop(k)
