"""Checker self-test (thorough tier): in-memory source variants of the current tree.

Each property module may define
  MUTANTS = [(name, module, old_text, new_text, expected_rule_prefix), ...]   breaking edits: must be reported
  NEUTRAL = [(name, module, old_text, new_text), ...]                           behaviour-preserving edits: must stay silent
A variant whose `old_text` no longer occurs in the current source is skipped (counted), never a failure of the
repository.  A self-test failure is an ANALYSIS-ERROR (exit 2): the checker is broken, not the code.
"""
from __future__ import annotations

import importlib
import os
from concurrent.futures import ProcessPoolExecutor

from .core import VIOLATION, UNKNOWN
from .srcmodel import PKG


def _read(root, module):
    with open(os.path.join(root, PKG, module + ".py"), encoding="utf-8") as fh:
        return fh.read()


def run_variant(args):
    prop, root, module, old, new, count = args
    from .__main__ import analyse
    src = _read(root, module)
    if old not in src:
        return ("skipped", [], [])
    src2 = src.replace(old, new) if count is None else src.replace(old, new, count)
    try:
        mod, ctx = analyse(prop, root, "quick", sources={module: src2})
    except Exception as ex:  # pragma: no cover
        return ("error", [f"{type(ex).__name__}: {ex}"], [])
    from .core import load_known
    # findings recorded as open are reported on the unchanged tree too: a variant is judged by what it adds to them
    known = {(k.get("rule"), k.get("function"), " ".join(k.get("construct", "").split())) for k in load_known() if k.get("property") == prop and k.get("status") == "open"}
    viol = [(r.rule, r.func, r.construct[:120]) for r in ctx.results if r.status == VIOLATION and (r.rule, r.func, r.construct) not in known]
    unk = [(r.rule, r.func, r.construct[:120], r.msg[:120]) for r in ctx.results if r.status == UNKNOWN]
    return ("ok", viol, unk)


VERIF = os.path.dirname(os.path.dirname(os.path.abspath(__file__)))


def run_diff(args):
    """a stored diff replayed on the corpus snapshot it was made for: ("skipped"|"ok"|"error", violations, undecided)"""
    prop, root, path = args
    from .__main__ import analyse
    from .patching import stored_sources, added
    try:
        src = stored_sources(os.path.dirname(path) if os.path.basename(path) == "patch.diff" else path)
    except Exception:
        src = None
    if src is None:
        return ("skipped", [], [])
    try:
        mod, ctx = analyse(prop, root, "quick", sources=src)
    except Exception as ex:  # pragma: no cover
        return ("error", [f"{type(ex).__name__}: {ex}"], [])
    new_ = added(prop, ctx.results, os.path.dirname(path) if os.path.basename(path) == "patch.diff" else path)          # judged by what the diff adds to the reports on the bare corpus snapshot
    viol = [(r.rule, r.func, r.construct[:120]) for r in new_ if r.status == VIOLATION]
    unk = [(r.rule, r.func, r.construct[:120], r.msg[:120]) for r in new_ if r.status == UNKNOWN]
    return ("ok", viol, unk)


def corpus(prop):
    """(behaviour-preserving refactor diffs, seeded breaking diffs owned by `prop`)"""
    import glob
    import json
    refactors = sorted(glob.glob(os.path.join(VERIF, "neutral", "*.diff")))
    # small commits that change behaviour without touching any property (new optional parameter, extra accepted spelling, other
    # exception text, finer grid ...): every check must stay silent on them too
    refactors += sorted(glob.glob(os.path.join(VERIF, "feature", "small", "*.diff"))) + sorted(glob.glob(os.path.join(VERIF, "feature", "small2", "*.diff"))) + sorted(glob.glob(os.path.join(VERIF, "feature", "small3", "*.diff"))) + sorted(glob.glob(os.path.join(VERIF, "feature", "small4", "*.diff")))
    seeded = []
    for d in sorted(glob.glob(os.path.join(VERIF, "seeded", "*", "meta.json"))):
        try:
            if json.load(open(d)).get("property") == prop:
                seeded.append(os.path.join(os.path.dirname(d), "patch.diff"))
        except Exception:
            continue
    return refactors, seeded


def run_selftest(prop, root, seed=0, jobs=None):
    from . import variants
    mutants = list(variants.MUTANTS.get(prop, []))
    neutral = list(variants.NEUTRAL.get(prop, []))
    tasks = []
    for m in mutants:
        name, module, old, new, expect = m[:5]
        tasks.append(("mutant", name, expect, (prop, root, module, old, new, m[5] if len(m) > 5 else None)))
    for m in neutral:
        name, module, old, new = m[:4]
        tasks.append(("neutral", name, None, (prop, root, module, old, new, m[4] if len(m) > 4 else None)))
    refactors, seeded = corpus(prop)
    res = {"mutants": len(mutants), "neutral": len(neutral), "fired": 0, "silent": 0, "skipped": 0, "failures": [], "seed": seed,
           "fired_samples": [], "refactor_diffs": len(refactors), "refactor_silent": 0, "seeded_diffs": len(seeded), "seeded_fired": 0}
    dtasks = [("refactor", os.path.basename(p), (prop, root, p)) for p in refactors] + [("seeded", os.path.basename(os.path.dirname(p)), (prop, root, p)) for p in seeded]
    if not tasks and not dtasks:
        return res
    jobs = jobs or min(16, len(tasks) + len(dtasks))
    with ProcessPoolExecutor(max_workers=jobs) as ex:
        douts = list(ex.map(run_diff, [t[2] for t in dtasks]))
        outs = list(ex.map(run_variant, [t[3] for t in tasks]))
    for (kind, name, _), (status, viol, unk) in zip(dtasks, douts):
        if status == "skipped":
            res["skipped"] += 1
        elif status == "error":
            res["failures"].append(f"{kind} diff '{name}': analyser crashed: {viol}")
        elif kind == "refactor":
            if viol:
                res["failures"].append(f"behaviour-preserving refactor '{name}' raised a false alarm: {viol[:3]}")
            elif unk:
                res["failures"].append(f"behaviour-preserving refactor '{name}' became undecided: {unk[:2]}")
            else:
                res["refactor_silent"] += 1
        else:
            if viol:
                res["seeded_fired"] += 1
            else:
                res["failures"].append(f"seeded breaking change '{name}' not reported (undecided: {unk[:2]})")
    for (kind, name, expect, _), (status, viol, unk) in zip(tasks, outs):
        if status == "skipped":
            res["skipped"] += 1
            continue
        if status == "error":
            res["failures"].append(f"{kind} '{name}': analyser crashed: {viol}")
            continue
        if kind == "mutant":
            hit = [v for v in viol if v[0].startswith(expect)]
            if hit:
                res["fired"] += 1
                if len(res["fired_samples"]) < 12:
                    res["fired_samples"].append({"variant": name, "reported": list(hit[0])})
            else:
                res["failures"].append(f"breaking variant '{name}' not reported by {expect} (violations: {viol[:3]}, undecided: {unk[:2]})")
        else:
            if viol:
                res["failures"].append(f"behaviour-preserving variant '{name}' raised a false alarm: {viol[:3]}")
            elif unk:
                res["failures"].append(f"behaviour-preserving variant '{name}' became undecided: {unk[:2]}")
            else:
                res["silent"] += 1
    return res


def main():
    import sys
    prop = sys.argv[1].upper()
    root = "/repo"
    if len(sys.argv) >= 5:
        st, viol, unk = run_variant((prop, root, sys.argv[2], sys.argv[3], sys.argv[4], None))
        print(st)
        for v in viol:
            print("VIOLATION", v)
        for u in unk:
            print("UNKNOWN", u)
    else:
        r = run_selftest(prop, root)
        for k, v in r.items():
            print(k, v)


if __name__ == "__main__":
    main()
