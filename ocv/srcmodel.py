"""Source model of the opticomlib package: parsed modules, import tables, function and
class indexes, name resolution.  Pure `ast`; nothing from opticomlib is imported or run."""
from __future__ import annotations

import ast
import hashlib
import os
from dataclasses import dataclass, field

PKG = "opticomlib"
MODULES = ["__init__", "typing", "utils", "devices", "ppm", "ook", "lab"]


class AnalysisError(Exception):
    """The analysis cannot decide (vanished anchor, unknown idiom, parse failure)."""


@dataclass
class FuncInfo:
    qualname: str          # e.g. 'devices.FBG.<locals>.ode_system', 'typing.electrical_signal.__add__'
    name: str
    node: ast.AST          # FunctionDef | Lambda
    module: "Module"
    cls: str | None = None         # owning class name (methods only)
    parent: "FuncInfo | None" = None
    params: list = field(default_factory=list)
    locals: set = field(default_factory=set)
    local_imports: dict = field(default_factory=dict)

    @property
    def lineno(self):
        return self.node.lineno

    def body(self):
        return self.node.body if isinstance(self.node.body, list) else [ast.Return(value=self.node.body)]


@dataclass
class ClassInfo:
    name: str
    node: ast.ClassDef
    module: "Module"
    bases: list
    methods: dict = field(default_factory=dict)
    class_consts: dict = field(default_factory=dict)   # simple NAME = <expr> at class level


class Module:
    def __init__(self, name, path, src):
        self.name = name
        self.path = path
        self.src = src
        self.tree = ast.parse(src, filename=path)
        from .lower import lower_module
        self.lowered = lower_module(self.tree)      # match/case -> if/elif (see lower.py)
        self.digest = hashlib.sha256(src.encode()).hexdigest()[:16]
        self.imports: dict[str, str] = {}
        self.funcs: dict[str, FuncInfo] = {}
        self.classes: dict[str, ClassInfo] = {}
        self.globals: dict[str, ast.AST] = {}   # module-level NAME = expr
        for n in ast.walk(self.tree):
            for ch in ast.iter_child_nodes(n):
                ch._parent = n  # type: ignore[attr-defined]
        self._index()

    # ------------------------------------------------------------------ imports
    @staticmethod
    def _import_entries(node, modname):
        out = {}
        if isinstance(node, ast.Import):
            for a in node.names:
                if a.asname:
                    out[a.asname] = a.name
                else:
                    out[a.name.split(".")[0]] = a.name.split(".")[0]
        elif isinstance(node, ast.ImportFrom):
            if node.level:
                base = PKG if node.level == 1 else PKG
                mod = base + ("." + node.module if node.module else "")
            else:
                mod = node.module or ""
            for a in node.names:
                out[a.asname or a.name] = mod + "." + a.name
        return out

    def _index(self):
        for node in self.tree.body:
            if isinstance(node, (ast.Import, ast.ImportFrom)):
                self.imports.update(self._import_entries(node, self.name))
            elif isinstance(node, ast.Assign) and len(node.targets) == 1 and isinstance(node.targets[0], ast.Name):
                self.globals[node.targets[0].id] = node.value
            elif isinstance(node, ast.AnnAssign) and isinstance(node.target, ast.Name) and node.value is not None:
                self.globals[node.target.id] = node.value
        self._index_body(self.tree.body, prefix=self.name, cls=None, parent=None)
        # lambdas held in module-level tables (NAME = {"key": lambda ...}) are functions of the module too
        for gname, gval in self.globals.items():
            k = 0
            for n in ast.walk(gval):
                if isinstance(n, ast.Lambda):
                    k += 1
                    qq = f"{self.name}.<{gname}>.<lambda{k}>"
                    if qq not in self.funcs and not any(f.node is n for f in self.funcs.values()):
                        sub = FuncInfo(qq, "<lambda>", n, self, cls=None, parent=None)
                        self._fill_locals(sub)
                        self.funcs[qq] = sub
                        self._index_nested(n, qq, sub)

    def _index_body(self, body, prefix, cls, parent):
        for node in body:
            if isinstance(node, (ast.FunctionDef, ast.AsyncFunctionDef)):
                q = f"{prefix}.{node.name}"
                fi = FuncInfo(q, node.name, node, self, cls=cls, parent=parent)
                self._fill_locals(fi)
                self.funcs[q] = fi
                if cls and parent is None:
                    self.classes[cls].methods[node.name] = fi
                self._index_nested(node, q, fi)
            elif isinstance(node, ast.ClassDef):
                ci = ClassInfo(node.name, node, self, [self._base_name(b) for b in node.bases])
                self.classes[node.name] = ci
                for st in node.body:
                    if isinstance(st, ast.Assign) and len(st.targets) == 1 and isinstance(st.targets[0], ast.Name):
                        ci.class_consts[st.targets[0].id] = st.value
                self._index_body(node.body, f"{prefix}.{node.name}", node.name, None)

    def _index_nested(self, fnode, q, fi):
        """nested defs and lambdas anywhere inside fnode (not crossing other defs)."""
        counter = [0]

        def walk(n):
            for ch in ast.iter_child_nodes(n):
                if isinstance(ch, (ast.FunctionDef, ast.AsyncFunctionDef)):
                    qq = f"{q}.<locals>.{ch.name}"
                    k = 2
                    while qq in self.funcs:
                        qq = f"{q}.<locals>.{ch.name}#{k}"
                        k += 1
                    sub = FuncInfo(qq, ch.name, ch, self, cls=None, parent=fi)
                    self._fill_locals(sub)
                    self.funcs[qq] = sub
                    self._index_nested(ch, qq, sub)
                elif isinstance(ch, ast.Lambda):
                    counter[0] += 1
                    qq = f"{q}.<locals>.<lambda{counter[0]}>"
                    sub = FuncInfo(qq, "<lambda>", ch, self, cls=None, parent=fi)
                    self._fill_locals(sub)
                    self.funcs[qq] = sub
                    self._index_nested(ch, qq, sub)
                elif isinstance(ch, ast.ClassDef):
                    continue
                else:
                    walk(ch)
        if isinstance(fnode, ast.Lambda):
            walk(ast.Expr(value=fnode.body))
        else:
            for st in fnode.body:
                walk(ast.Module(body=[st], type_ignores=[]))
            for d in fnode.args.defaults + [x for x in fnode.args.kw_defaults if x is not None]:
                walk(ast.Expr(value=d))

    @staticmethod
    def _base_name(b):
        return ast.unparse(b)

    def _fill_locals(self, fi: FuncInfo):
        node = fi.node
        a = node.args
        params = [x.arg for x in a.posonlyargs + a.args]
        if a.vararg:
            params.append(a.vararg.arg)
        params += [x.arg for x in a.kwonlyargs]
        if a.kwarg:
            params.append(a.kwarg.arg)
        fi.params = params
        loc = set(params)
        body = node.body if isinstance(node.body, list) else [ast.Expr(value=node.body)]

        def walk(n):
            for ch in ast.iter_child_nodes(n):
                if isinstance(ch, (ast.FunctionDef, ast.AsyncFunctionDef)):
                    loc.add(ch.name)
                    continue
                if isinstance(ch, (ast.Lambda, ast.ClassDef)):
                    continue
                if isinstance(ch, (ast.ListComp, ast.SetComp, ast.DictComp, ast.GeneratorExp)):
                    continue  # comprehension targets live in their own scope
                if isinstance(ch, ast.Name) and isinstance(ch.ctx, (ast.Store, ast.Del)):
                    loc.add(ch.id)
                elif isinstance(ch, ast.ExceptHandler) and ch.name:
                    loc.add(ch.name)
                elif isinstance(ch, (ast.Import, ast.ImportFrom)):
                    ent = self._import_entries(ch, self.name)
                    fi.local_imports.update(ent)
                    loc.update(ent)
                walk(ch)
        walk(ast.Module(body=body, type_ignores=[]))
        fi.locals = loc


class Package:
    def __init__(self, root="/repo", sources: dict | None = None):
        """sources: optional {module name: source text} overriding the files on disk (used by
        the in-memory self-test variants)."""
        self.root = root
        self.modules: dict[str, Module] = {}
        pkgdir = os.path.join(root, PKG)
        for m in MODULES:
            path = os.path.join(pkgdir, m + ".py")
            if sources and m in sources:
                src = sources[m]
            else:
                if not os.path.isfile(path):
                    raise AnalysisError(f"module {PKG}.{m} not found at {path}")
                with open(path, encoding="utf-8") as fh:
                    src = fh.read()
            try:
                self.modules[m] = Module(m, path, src)
            except SyntaxError as ex:
                raise AnalysisError(f"cannot parse {path}: {ex}")
        # any extra python file in the package is parsed too (coverage: everything the build ships)
        if os.path.isdir(pkgdir):
            for fn in sorted(os.listdir(pkgdir)):
                if fn.endswith(".py") and fn[:-3] not in self.modules:
                    with open(os.path.join(pkgdir, fn), encoding="utf-8") as fh:
                        src = fh.read()
                    try:
                        self.modules[fn[:-3]] = Module(fn[:-3], os.path.join(pkgdir, fn), src)
                    except SyntaxError as ex:
                        raise AnalysisError(f"cannot parse {fn}: {ex}")

    # ------------------------------------------------------------------ lookup
    def module(self, name) -> Module:
        if name not in self.modules:
            raise AnalysisError(f"module {name} missing")
        return self.modules[name]

    def func(self, qualname) -> FuncInfo:
        mod, _, rest = qualname.partition(".")
        m = self.module(mod)
        if qualname not in m.funcs:
            raise AnalysisError(f"anchor function {qualname} not found")
        return m.funcs[qualname]

    def has_func(self, qualname):
        mod = qualname.split(".")[0]
        return mod in self.modules and qualname in self.modules[mod].funcs

    def cls(self, modname, clsname) -> ClassInfo:
        m = self.module(modname)
        if clsname not in m.classes:
            raise AnalysisError(f"anchor class {modname}.{clsname} not found")
        return m.classes[clsname]

    def all_funcs(self):
        for m in self.modules.values():
            yield from m.funcs.values()

    def digests(self):
        return {m.name: m.digest for m in self.modules.values()}

    def mro(self, modname, clsname):
        """linearised bases inside the package (single inheritance is all the package uses)."""
        out = []
        seen = set()
        cur = (modname, clsname)
        while cur and cur not in seen:
            seen.add(cur)
            m = self.modules.get(cur[0])
            if not m or cur[1] not in m.classes:
                break
            ci = m.classes[cur[1]]
            out.append(ci)
            nxt = None
            for b in ci.bases:
                r = self.resolve_name(m, None, b)
                if r and r.startswith(PKG + "."):
                    parts = r.split(".")
                    nxt = (parts[1], parts[2]) if len(parts) >= 3 else None
                    break
                if b in m.classes:
                    nxt = (m.name, b)
                    break
            cur = nxt
        return out

    def find_method(self, modname, clsname, meth) -> FuncInfo | None:
        for ci in self.mro(modname, clsname):
            if meth in ci.methods:
                return ci.methods[meth]
        return None

    # ------------------------------------------------------------------ name resolution
    def resolve_name(self, module: Module, fi: FuncInfo | None, name: str) -> str | None:
        """dotted origin of a bare name seen in `fi` (or at module level), or None if it is a
        local variable / unknown."""
        f = fi
        while f is not None:
            if name in f.local_imports:
                return self._canon(f.local_imports[name])
            if name in f.locals:
                return None
            f = f.parent
        if name in module.imports:
            return self._canon(module.imports[name])
        if name in module.classes:
            return f"{PKG}.{module.name}.{name}"
        if f"{module.name}.{name}" in module.funcs:
            return f"{PKG}.{module.name}.{name}"
        if name in module.globals:
            return f"{PKG}.{module.name}.{name}"
        return None

    def _canon(self, dotted: str, depth=0) -> str:
        """follow re-exports inside the package (from .typing import gv -> opticomlib.typing.gv)."""
        if not dotted.startswith(PKG + ".") or depth > 5:
            return _ALIASES.get(dotted, dotted)
        parts = dotted.split(".")
        if len(parts) >= 3 and parts[1] in self.modules:
            m = self.modules[parts[1]]
            nm = parts[2]
            if nm in m.imports and nm not in m.classes and f"{m.name}.{nm}" not in m.funcs and nm not in m.globals:
                tgt = m.imports[nm] + ("." + ".".join(parts[3:]) if len(parts) > 3 else "")
                return self._canon(tgt, depth + 1)
        return dotted

    def resolve_expr(self, module: Module, fi: FuncInfo | None, node: ast.AST) -> str | None:
        """dotted name of Name / Attribute chains rooted at an import or package global."""
        if isinstance(node, ast.Name):
            return self.resolve_name(module, fi, node.id)
        if isinstance(node, ast.Attribute):
            base = self.resolve_expr(module, fi, node.value)
            if base is None:
                return None
            return self._canon(base + "." + node.attr)
        return None


_ALIASES = {
    "scipy.constants.k": "scipy.constants.k",
    "numpy.fft.fft": "numpy.fft.fft",
}


def src_of(node) -> str:
    try:
        return ast.unparse(node)
    except Exception:  # pragma: no cover
        return "<?>"


def norm_src(node_or_text) -> str:
    """normalised statement/expression text used to key findings (never line numbers)."""
    if isinstance(node_or_text, ast.AST):
        t = ast.unparse(node_or_text)
    else:
        try:
            t = ast.unparse(ast.parse(node_or_text))
        except SyntaxError:
            t = node_or_text
    return " ".join(t.split())
