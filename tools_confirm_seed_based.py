#!/usr/bin/env python3
"""confirm a seeded change made on top of a refactored baseline (neutral/<base>.diff) and store it under /verif/seeded/<name>/.
usage: tools_confirm_seed_based.py <name> <property> <patch (diff -ru against the baseline)> <demo> "<needs>" <base diff relative to /verif, or "" for HEAD>"""
import json, os, shutil, subprocess, sys
name, prop, patch, demo, needs, base = sys.argv[1:7]
wt = f"/tmp/confirm_{name}"
subprocess.run(["git", "-C", "/repo", "worktree", "remove", "--force", wt], capture_output=True)
subprocess.check_call(["git", "-C", "/repo", "worktree", "add", "-q", "--detach", wt, "HEAD"])
env = dict(os.environ, MPLBACKEND="Agg", PYTHONPATH=wt, OMP_NUM_THREADS="1")
def run(cmd, t=900):
    r = subprocess.run(cmd, cwd=wt, env=env, capture_output=True, text=True, timeout=t)
    return r.returncode, (r.stdout + r.stderr)[-400:]
try:
    if base:
        subprocess.check_call(["git", "-C", wt, "apply", os.path.join("/verif", base)], stderr=subprocess.DEVNULL)
    shutil.copy(demo, os.path.join(wt, "demo.py"))
    rc0, out0 = run(["timeout", "300", "/venv/bin/python", "demo.py"])
    r = subprocess.run(["patch", "-p0", "-s", "-i", os.path.abspath(patch)], cwd=wt, capture_output=True, text=True)
    assert r.returncode == 0, r.stdout + r.stderr
    rc1, out1 = run(["timeout", "300", "/venv/bin/python", "demo.py"])
    rct, outt = run(["timeout", "900", "/venv/bin/python", "-m", "pytest", "-q", "-p", "no:cacheprovider", "--timeout=900", "tests"])
    ok = rc0 == 0 and rc1 != 0 and rct == 0 and "49 passed" in outt
    print(name, "demo on baseline:", rc0, "with patch:", rc1, "tests:", rct, outt.strip().splitlines()[-1] if outt.strip() else "", "=> CONFIRMED" if ok else "=> NOT CONFIRMED")
    if ok:
        d = f"/verif/seeded/{name}"
        os.makedirs(d, exist_ok=True)
        shutil.copy(patch, os.path.join(d, "patch.diff"))
        shutil.copy(demo, os.path.join(d, "demo.py"))
        head = subprocess.run(["git", "-C", "/repo", "rev-parse", "--short", "HEAD"], capture_output=True, text=True).stdout.strip()
        meta = {"property": prop, "needs_to_manifest": needs, "base_commit": head, "base_diff": base,
                "confirmed": {"demo_on_baseline": "exit 0 (PASS)", "demo_with_patch": f"exit {rc1} (FAIL)", "existing_tests_with_patch": "49 passed",
                              "commands": ["git worktree add <scratch> HEAD", f"git apply /verif/{base}  (behaviour-preserving refactor = baseline)", "MPLBACKEND=Agg PYTHONPATH=<scratch> /venv/bin/python demo.py",
                                           "patch -p0 -i patch.diff", "MPLBACKEND=Agg PYTHONPATH=<scratch> /venv/bin/python demo.py", "/venv/bin/python -m pytest -q tests"]},
                "demo_output_with_patch": out1[-300:]}
        if os.path.isdir(f"/verif/bases/{head}"):
            meta["snapshot"] = head          # the corpus snapshot this change is replayed on (ocv/patching.py:snapshot_of)
        if not base:
            del meta["base_diff"]
            meta["confirmed"]["commands"] = [c for c in meta["confirmed"]["commands"] if not c.startswith("git apply")]
        json.dump(meta, open(os.path.join(d, "meta.json"), "w"), indent=1)
finally:
    subprocess.run(["git", "-C", "/repo", "worktree", "remove", "--force", wt], capture_output=True)
