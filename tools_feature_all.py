#!/usr/bin/env python3
"""run every check against every stored property-preserving behaviour change (feature/small/*.diff, optionally the large feature/*.diff)
applied to an in-memory copy of the sources; they must be silent.  usage: tools_feature_all.py [substr] [-v] [--large]"""
import os, sys, glob
from concurrent.futures import ProcessPoolExecutor
sys.path.insert(0, os.path.dirname(os.path.abspath(__file__)))
PROPS = [f"C{i:02d}" for i in range(1, 21)]


def one(args):
    diff, prop = args
    from ocv.__main__ import analyse
    from ocv.core import VIOLATION, UNKNOWN
    from ocv.patching import stored_sources, added
    src = stored_sources(diff)
    if src is None:
        return diff, prop, [("nopatch", "", "", "")]
    try:
        mod, ctx = analyse(prop, "/repo", "quick", sources=src)
    except Exception as ex:
        return diff, prop, [("CRASH", "", type(ex).__name__, str(ex)[:200])]
    return diff, prop, [(r.status, r.rule, r.construct[:140], r.msg[:200]) for r in added(prop, ctx.results, diff) if r.status in (VIOLATION, UNKNOWN)]


if __name__ == "__main__":
    args = [a for a in sys.argv[1:] if not a.startswith("-")]
    flt = args[0] if args else ""
    diffs = sorted(glob.glob("/verif/feature/small/*.diff")) + sorted(glob.glob("/verif/feature/small2/*.diff")) + sorted(glob.glob("/verif/feature/small3/*.diff")) + sorted(glob.glob("/verif/feature/small4/*.diff")) + (sorted(glob.glob("/verif/feature/*.diff")) if "--large" in sys.argv else [])
    diffs = [d for d in diffs if flt in d]
    # a fresh pool per batch: the interning tables of the value forms grow with every analysed variant (a worker that ran 300 of them held 7 GB)
    class _Batched:
        def __enter__(self):
            return self

        def __exit__(self, *a):
            return False

        def map(self, fn, tasks, chunksize=1):
            tasks = list(tasks)
            for i in range(0, len(tasks), 320):
                with ProcessPoolExecutor(max_workers=16) as pool:
                    yield from pool.map(fn, tasks[i:i + 320], chunksize=chunksize)
    with _Batched() as ex:
        res = list(ex.map(one, [(d, p) for d in diffs for p in PROPS], chunksize=2))
    tot = 0
    for d in diffs:
        rows = [(p, x) for dd, p, xs in res if dd == d for x in xs]
        tot += len(rows)
        print(f"{os.path.basename(d):24s} noisy={len(rows):3d}  " + " ".join(sorted({f'{p}:{x[1]}:{x[0][:4]}' for p, x in rows}))[:150])
        if "-v" in sys.argv:
            for p, x in rows:
                print("     ", p, *x)
    print("total noisy:", tot)
