#!/usr/bin/env python3
"""regenerates MANIFEST.json from ocv/props/*.py metadata (claimed) and NOT_APPLICABLE below"""
import importlib, json, os, sys
sys.path.insert(0, os.path.dirname(os.path.abspath(__file__)))
PROPS = [f"C{i:02d}" for i in range(1, 21)]
NOT_APPLICABLE = {}
checks, na = [], []
for p in PROPS:
    path = os.path.join(os.path.dirname(os.path.abspath(__file__)), "ocv", "props", p.lower() + ".py")
    if p in NOT_APPLICABLE:
        na.append({"property_id": p, "reason": NOT_APPLICABLE[p]}); continue
    if not os.path.isfile(path):
        na.append({"property_id": p, "reason": "static rules for this property are designed (DESIGN.md section 2) but not implemented yet; not claimed until the check exists"}); continue
    m = importlib.import_module(f"ocv.props.{p.lower()}")
    checks.append({
        "property_id": p,
        "quick_cmd": f"./vcheck {p} --tier quick",
        "thorough_cmd": f"./vcheck {p} --tier thorough",
        "evidence_file": f"/verif/evidence/{p}.json",
        "replay_cmd_template": f"./vcheck {p} --replay {{path}}",
        "engine": "ocv",
        "level_claimed": {"category": getattr(m, "LEVEL", "other"), "text": getattr(m, "LEVEL_TEXT", m.EXPLANATION)[:1500], "design_ref": f"DESIGN.md section 2, {p}"},
        "level_note": "trusted base: " + "; ".join(m.TRUSTED) + ". Decides the listed structural clauses (necessary conditions of the property), not the numerical behaviour.",
        "technique": getattr(m, "TECHNIQUE", "static analysis: repository-specific AST/dataflow rules with polynomial normal forms"),
    })
man = {
    "version": 1,
    "setup_cmd": "true",
    "hooks": {"guard": "OPTICOMLIB_VERIF", "enable": "none needed: static analysis reads /repo/opticomlib/*.py; no instrumentation", "baseline_off_cmd": "cd /repo && /venv/bin/python -m pytest -ra -q -p no:cacheprovider --timeout=900 --continue-on-collection-errors", "source_commits": [], "add_only": True},
    "engines": [{"name": "ocv", "path": "/verif/ocv", "serves_properties": [c["property_id"] for c in checks], "kind_free_text": "pure-stdlib static analyser: ast source model, value-form abstract interpretation with polynomial normal forms, effects/alias analysis, CFG path rules, GF(2) algebra"}],
    "checks": checks,
    "not_applicable": na,
    "notes": "All checks are static (no opticomlib code is imported or executed). exit 0 holds / 1 VIOLATION / 2 ANALYSIS-ERROR (undecidable: vanished anchor or unknown idiom).",
}
_out = os.path.join(os.path.dirname(os.path.abspath(__file__)), "MANIFEST.json")
_txt = json.dumps(man, indent=1)
with open(_out + ".tmp", "w") as fh:
    fh.write(_txt)
os.replace(_out + ".tmp", _out)
print("claimed", [c["property_id"] for c in checks], "n/a", [n["property_id"] for n in na])
