#!/usr/bin/env python3
"""regenerate the table of DESIGN.md section 7 from seeded/*/meta.json and seeded/RESULTS.json (written by tools_seeded_all.py)"""
import json, os, re
rows = {r["seed"]: r for r in json.load(open("/verif/seeded/RESULTS.json"))}
lines = ["| seeded change | breaks | needs, to manifest | reported by |", "|---|---|---|---|"]
for n in sorted(rows):
    meta = json.load(open(f"/verif/seeded/{n}/meta.json"))
    needs = meta.get("needs_to_manifest", "").replace("|", "\\|")
    if meta.get("base_diff"):
        needs += f" (made on top of `{meta['base_diff']}`)"
    lines.append(f"| `{n}` | {meta['property']} | {needs} | {', '.join(rows[n]['checks_reporting'])} |")
text = open("/verif/DESIGN.md").read()
new, k = re.subn(r"\| seeded change \| breaks \|[^\n]*\n(?:\|[^\n]*\n)+", "\n".join(lines) + "\n", text, count=1)
assert k == 1
open("/verif/DESIGN.md", "w").write(new)
print(len(lines) - 2, "rows; not reported by own check:", [n for n in rows if not rows[n]["caught_by_own_check"]])
