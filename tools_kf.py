#!/usr/bin/env python3
"""append an entry to known_findings.json (maintenance helper, never run by a check)"""
import json, sys
p='/verif/known_findings.json'
d=json.load(open(p))
prop, rule, func, construct, status, commit, what = sys.argv[1:8]
e={"property":prop,"rule":rule,"function":func,"construct":construct,"status":status,"commit":commit,"what":what}
if status=="fixed":
    e["line"]=f"fixed: property={prop} {commit} {what}"
d["findings"].append(e)
json.dump(d,open(p,'w'),indent=1)
