#!/usr/bin/env python3
"""prepare scratch worktrees (outside /repo and /verif) and the prompts for a wave of independent sub-agents.

  tools_mkwave.py seeds   <dir> [--base neutral/<x>.diff]   one worktree + prompt per property: a change that BREAKS the property
  tools_mkwave.py neutral <dir> <style>                      one worktree + prompt per module group: a behaviour-preserving commit
  tools_mkwave.py feature <dir>                              one worktree + prompt per module group: behaviour-CHANGING edits that keep the
                                                             properties of that group true (probes over-specification of the checks)

The prompts contain the property text (seeds) or the function list (neutral) only - nothing from /verif. The worktrees are removed
with `git -C /repo worktree remove --force <dir>/<x>` once the results are confirmed and stored."""
import json, os, subprocess, sys

SEED_TMPL = '''You are helping test a verification tool. Work ONLY inside the git worktree {wt} (a checkout of the Python library "opticomlib", an optical-communications simulation library). Do not read or write anything under /verif or /repo.

Here is a semantic property that the library is supposed to satisfy:

ID: {id}
TITLE: {title}
STATEMENT: {statement}
QUANTIFIER: {quant}

Your job: produce ONE realistic, subtle code change (a "seeded bug") to the library source under {wt}/opticomlib/ that BREAKS this property, while (a) the package still imports/compiles and (b) the existing test-suite still passes. Prefer a change that needs something specific to manifest (an unusual input, a particular parameter combination or container type, a multi-step sequence of calls, or two cooperating sites that each look fine alone) rather than one that ordinary use would expose at once. It should look like a plausible maintainer mistake or "optimisation" (1-15 changed lines), not sabotage with comments announcing it.

{context}For variety: earlier experiments already tried the following changes for this property - do NOT repeat them or close variants: {prev}.
First list for yourself the separate clauses of the STATEMENT and the code sites (functions, branches, helper functions, default values, guards) each clause depends on; then pick a clause or a code site that NONE of the earlier changes touches. {steer}

Steps:
1. Read the relevant source in {wt}/opticomlib/ (and tests in {wt}/tests/) to understand the anchored code.
2. Make the change in the worktree.
3. Write a small demonstration script {wt}/demo_{id}.py that exits 0 (prints PASS) when the property holds for the demonstrated input and exits 1 (prints FAIL with details) when it does not. It must FAIL with your change and PASS on the baseline code. Use fixed seeds; keep it fast (< 30 s). Run python as: cd {wt} && MPLBACKEND=Agg PYTHONPATH={wt} timeout 120 /venv/bin/python demo_{id}.py  (PYTHONPATH is essential: otherwise the installed copy is imported; the demo must import whatever `opticomlib` PYTHONPATH provides and must not hard-code a path).
4. Save the library diff as a unified diff AGAINST THE BASELINE COPY: cd {wt} && diff -ru base_pkg/opticomlib opticomlib > {wt}/patch_{id}.diff ; (diff exits 1 when there are differences - that is expected; the file must contain only your seeded change, 1-15 changed lines). Do NOT use `git stash`, `git checkout`, `git apply`. A pristine copy of the baseline package is in {wt}/base_pkg/opticomlib (do not edit it).
5. Verify: (i) with your change the demo fails; (ii) on the baseline (PYTHONPATH={wt}/base_pkg) the demo passes; (iii) the existing tests still pass with your change: cd {wt} && MPLBACKEND=Agg PYTHONPATH={wt} timeout 900 /venv/bin/python -m pytest -q -p no:cacheprovider --timeout=900 tests  (expect 49 passed).
6. Reply with: the file/function changed, a one-paragraph description of what breaks and what is needed for it to manifest, and the exact commands you ran with their outcomes. Leave patch_{id}.diff and demo_{id}.py in {wt}; do not commit.

Never call devices.FIBER without a `timeout` wrapper. Do not modify tests. Do not touch anything outside {wt}.{extra}'''

BASE_CONTEXT = ("IMPORTANT CONTEXT: this worktree is NOT the upstream code: it already contains a large uncommitted, behaviour-preserving maintenance refactor. Treat the worktree's CURRENT state as the "
                "baseline. Your seeded bug goes on top of this baseline, preferably INSIDE one of the new helpers, lookup tables, constants or option defaults (places a reviewer of the refactor would skim), "
                "or in how a function passes arguments to a helper.\n\n")

STEERS = {
    "10": "The maintainers recently repaired a number of defects (`git log --oneline | grep fix:` in the worktree lists them, `git show <commit>` shows each repair). Prefer a change that UNDOES OR WEAKENS ONE OF THOSE REPAIRS in a way "
          "a later refactor plausibly would - written differently from the original defect (do not simply revert the commit): the guard kept but its condition narrowed, the repaired expression 'simplified' into something "
          "that is right only for the common input, the fix applied to one of the sibling functions / branches / operators but not the other, the repaired line moved after the point where the value is used, a helper introduced "
          "that drops the detail the repair added. If no repair touches code your property depends on, make a change in a code path that is NOT the main one (optional argument, second polarisation, noise component, error path, "
          "a value returned alongside the main result).",
    "9": "Prefer a change in a code path that is NOT the main one: the branch of an optional argument (retH, BW given, fs given, return_seed, sps_resamp omitted, a non-default pulse shape or decision mode), the handling of the second "
         "polarisation / of the noise component / of a plain ndarray or list input instead of a signal object, an error path (which exception is raised, or none), something returned alongside the main result (the second element "
         "of a returned tuple, an attribute of the returned object), or the interplay of two public functions the property relates (a round trip, a composition, one function's output fed to the other, two siblings that must agree).",
    "8": "Prefer a change of one of these kinds, whichever fits the code: a performance 'optimisation' that is subtly wrong (a value cached or precomputed once that should follow its inputs, a loop replaced by a "
         "vectorised expression that treats one case differently, an early exit for a 'trivial' input, work skipped when a parameter has a 'neutral' value that is not quite neutral); a 'robustness' edit that alters a "
         "result (clipping, nan_to_num, abs, np.maximum with a floor, a default fallback, a try/except that swallows an error and continues); an edit confined to ONE of two sibling branches (one vs two polarisations, "
         "noise present vs absent, ndarray vs signal object, scalar vs array argument, odd vs even length) so that the siblings no longer agree; two operations that do not commute applied in the other order "
         "(filter and sample, round and scale, shift and transform, truncate and roll, cast and clip); a quantity taken from the wrong object of a pair (input vs output, signal vs noise, Tx vs Rx, first vs last element).",
    "7": "Prefer a change of one of these kinds, whichever fits the code: TWO cooperating edits in different functions that each look fine alone (e.g. a helper that now returns something slightly different plus a caller that was 'adapted'); "
         "a slip in a function that SEVERAL devices share (a method of the signal classes, a utility), visible only through one of its callers; a changed default value or a default that is now computed at another time; "
         "a fast path / shortcut for a 'common case' whose condition is slightly too wide; an update to a local that should have been made to the object (or the other way round); a numpy idiom replaced by a near-equivalent "
         "(np.round vs int, // vs /, argsort vs sort, mean over another axis, in-place vs copy, view vs copy, >= vs >, len vs size on 2-D data); a validation that moved after the first use of the value.",
    "5": "Prefer one of these kinds of slips, whichever fits the code: a boundary made inclusive/exclusive, an off-by-one in a slice or range, a wrong axis, a swapped pair of arguments, a sign or a complex conjugate, "
         "a unit factor (1e-12, 1e9, dB vs linear, Hz vs rad/s), an integer/float division, a dtype that truncates or wraps, a condition that is right for the common case only, an exception type or message path that changed, "
         "a value read at the wrong time (before an update instead of after), a copy turned into a view, a loop that stops one iteration early or late.",
}

GROUPS = {
    'typing': ('opticomlib/typing.py', 'global_variables.__call__/clean, binary_sequence (all methods), electrical_signal (__init__, __add__/__radd__/__sub__/__rsub__/__mul__, __getitem__, __call__, __gt__/__lt__, len, w, power, abs, copy) and optical_signal (__init__, __getitem__)'),
    'devA': ('opticomlib/devices.py', 'PRBS, DAC, LASER, PM, MZM, SAMPLER'),
    'devB': ('opticomlib/devices.py', 'BPF, EDFA, DM, FIBER, LPF, PD'),
    'devC': ('opticomlib/devices.py', 'ADC, GET_EYE, FBG (including its nested ode_system)'),
    'codecs': ('opticomlib/ppm.py and opticomlib/ook.py', 'PPM_ENCODER, PPM_DECODER, HDD, SDD, THRESHOLD_EST, DSP, BER_analizer, theory_BER (both modules)'),
    'utils': ('opticomlib/utils.py', 'dec2bin, _get_type_array_from_str, str2array, db, dbm, idb, idbm, gaus, Q, rcos, si, p_ase, average_voltages, noise_variances, optimum_threshold, theory_BER, shortest_int'),
    'lab': ('opticomlib/lab.py', 'SYNC and the PPG3204 class (_check_channels, set_patt_len, set_prbs_order, set_data, get_data, set_freq, set_skew, set_output_voltage, set_offset)'),
}

STYLES = {
    "repairs": '''Produce a realistic maintenance commit that RE-WRITES RECENTLY REPAIRED CODE without changing behaviour. `git log --oneline | grep fix:` lists the recent repairs and `git show <commit>` shows each one. For every repair that touches the functions listed above, re-express the repaired lines in a different but exactly equivalent way (for ALL inputs, including the corner the repair was made for): e.g. an equivalent guard (`x is None` tests reordered, De Morgan, early return instead of nesting), an equivalent numpy spelling (np.broadcast_to vs. adding zeros of the target shape, np.clip vs. np.minimum/np.maximum, `.astype(int)` vs `np.asarray(..., dtype=int)` WHERE that is equivalent, `%`/np.mod/np.remainder, `isinstance(k, (int, np.integer))` vs `numbers.Integral` with the import added), the repaired expression moved into a small private helper (taking exactly what it needs), a local name introduced for a sub-expression, two sibling branches merged where they are identical, a comment reworded. Keep the repair's effect intact in every sibling (do not drop it from one branch). Add 8-15 ordinary behaviour-preserving refactor edits elsewhere in the listed functions (renamed locals, conditional expressions, comprehension vs loop, f-strings) so that the commit looks like normal maintenance.
''',
    "modern": '''Produce a realistic "modernise the code base" commit - behaviour-preserving, but NOT mere cosmetic tidying. Use a good MIX of the following, spread over many of the listed functions (aim for 20-35 separate edits in total):
- modern Python idioms: `match`/`case` statements for switches over a string option (same fall-through error), the walrus operator, conditional expressions instead of four-line if/else assignments, `enumerate`/`zip`/`itertools` instead of index arithmetic, star-unpacking (`a, *rest = ...`, `f(*args, **opts)`), `any(...)`/`all(...)` over generators instead of flag loops, chained comparisons, De Morgan rewrites of guards;
- functional style: dispatch through the `operator` module or small lambdas (e.g. one private `_binary_op(self, other, op)` shared by `__add__`/`__sub__`/`__mul__`), `functools.partial`, nested helper functions (closures) that capture local variables, helper functions that return tuples, local aliases for library functions (`_fft = np.fft.fft`), a different import style (`from numpy import pi, sqrt, exp`, `import scipy.signal as sg`);
- class structure: move shared method bodies into private methods / staticmethods / module-level functions, let a subclass reuse the parent's implementation through `super()` where the result is identical, introduce read-only properties ONLY where attribute access stays identical for callers;
- validation: collect the argument checks of a function into one private `_validate_<name>(...)` function that raises the same exceptions, with the same types and messages, in the same order; normalise an argument once at the top into a local.
''',
}

GROUP_PROPS = {"typing": ["C01", "C02", "C14", "C15"], "devA": ["C04", "C05", "C06"], "devB": ["C07", "C08", "C09", "C10", "C11"], "devC": ["C16", "C17", "C18"],
               "codecs": ["C03", "C12", "C13"], "utils": ["C13", "C18", "C19"], "lab": ["C20"]}

FEATURE_TMPL = '''You are helping test a verification tool for OVER-SPECIFICATION (alarms on code that still satisfies its contract). Work ONLY inside the git worktree {wt} (a checkout of the Python library "opticomlib"). Do not read or write anything under /verif or /repo.

The CONTRACT of the code you will touch is the following list of semantic properties. They - and nothing else - must stay true:

{props}

Your job: make 8-14 realistic FEATURE / MAINTENANCE commits' worth of edits to these functions in {file}: {funcs} - edits that DO change observable behaviour somewhere, but never in a way that makes any clause of the contract above false for any input in its quantified domain. Everything the contract does not constrain is free. Use a good mix of:
- new optional keyword parameters that change behaviour only when passed (e.g. `normalize=False`, `out_dtype=None`, `window=None`, `return_info=False`, `strict=False`); today's calls must keep satisfying the contract;
- accepting additional input kinds the contract does not mention (e.g. pandas-like objects via `np.asarray`, `pathlib.Path`, generators), or additional spellings of an option value;
- changed texts of warnings and error messages, extra warnings; a different exception type ONLY where the contract does not name the type;
- extra attributes on returned objects, extra keys in returned dicts, richer `__repr__`/`__str__`, extra plotting options;
- additional validation that rejects inputs OUTSIDE the contract's quantified domain (the contract does not say what happens there);
- a different numerical method or resolution where the contract states a tolerance or no exact value (a finer search grid, a different but valid estimator for a quantity the contract bounds loosely) - only if you can show the contract's bound still holds;
- changed defaults of parameters the contract does not fix; internal caching ONLY if the result cannot depend on anything but the cache key;
- ordinary refactoring in between.
Do NOT: break any clause of the contract, touch tests, or write comments that announce what you are doing for the tool. Keep the code clean and plausible; the interpreter is Python 3.12. The existing tests must still pass (if a test pins behaviour you wanted to change, leave that behaviour alone).

Steps:
1. Read the source and the contract, plan the edits, make them in {wt}.
2. Save the diff: cd {wt} && git diff -- opticomlib > {wt}/feature.diff . Do NOT use `git stash`.
3. Write {wt}/contract_check.py: a script that checks every clause of the contract you could have affected on many sampled inputs from the quantified domain (fixed seeds; exact checks where the contract is exact, the stated tolerances otherwise), prints PASS and exits 0 when all hold, prints the failing clause and exits 1 otherwise. It must import `opticomlib` from PYTHONPATH (remove the script's own directory from sys.path[0] so that PYTHONPATH decides). Run it on your changed code: cd {wt} && MPLBACKEND=Agg OMP_NUM_THREADS=1 PYTHONPATH={wt} timeout 600 /venv/bin/python contract_check.py  -> PASS. Also run it on the original code to make sure the script itself is right: copy the original package (git show HEAD:opticomlib/<file> for each file, or `git worktree`-free: `mkdir -p {wt}/orig_pkg && git archive HEAD opticomlib | tar -x -C {wt}/orig_pkg`) and run with PYTHONPATH={wt}/orig_pkg -> PASS (features that do not exist in the original must be skipped there).
4. Run the existing tests with your edits: cd {wt} && MPLBACKEND=Agg PYTHONPATH={wt} timeout 900 /venv/bin/python -m pytest -q -p no:cacheprovider --timeout=900 tests  (expect 49 passed).
5. If a contract clause fails, FIX YOUR EDIT (not the check). Regenerate feature.diff at the end.
6. Reply with a numbered list of the edits (function: what changed observably, and why the contract still holds), and the commands run with outcomes. Leave feature.diff and contract_check.py in {wt}; do not commit. Never call devices.FIBER without a `timeout` wrapper and small inputs.{extra}'''

SMALL_TMPL = '''You are helping test a verification tool for OVER-SPECIFICATION (alarms on code that still satisfies its contract). Work ONLY inside the git worktree {wt} (a checkout of the Python library "opticomlib"). Do not read or write anything under /verif or /repo.

The CONTRACT of the code you will touch is the following list of semantic properties. They - and nothing else - must stay true:

{props}

Your job: produce FIVE SEPARATE, SMALL, realistic commits (each 3-25 changed lines, each independent of the others, each applied to the pristine checkout) to these functions in {file}: {funcs}. Each commit DOES change observable behaviour somewhere, but never in a way that makes any clause of the contract false for any input in its quantified domain. Everything the contract does not constrain is free. Make the five commits of DIFFERENT kinds, chosen from:
 (a) a new optional parameter that changes behaviour only when passed; (b) accepting an additional input kind or an additional spelling of an option value; (c) a changed warning/error message, an extra warning, or a different exception type where the contract does not name the type; (d) an extra attribute on a returned object / extra key in a returned dict; (e) additional validation that rejects inputs OUTSIDE the contract's quantified domain; (f) a different numerical resolution or method where the contract states a tolerance (e.g. a finer search grid) - only if the contract's bound provably still holds; (g) a changed default of a parameter the contract does not fix; (h) a small bug fix for inputs outside the contract's domain (e.g. NaN handling, empty input).
Keep the code clean and plausible (Python 3.12); no comments that announce the purpose; do not touch tests; the existing tests must still pass with each commit.

Steps, for k = 1..5:
1. Start from the pristine code: cd {wt} && git checkout -- opticomlib
2. Make commit k's edit, save it: cd {wt} && git diff -- opticomlib > {wt}/small_{{k}}.diff  (3-25 changed lines).
3. Check it: write (once, reuse for all five) {wt}/contract_check.py that checks every clause of the contract you could have affected on many sampled inputs from the quantified domain (fixed seeds; exact where the contract is exact, stated tolerances otherwise), prints PASS / exits 0 when all hold, prints the failing clause / exits 1 otherwise; it must import `opticomlib` from PYTHONPATH (remove the script's own directory from sys.path[0]). Run: cd {wt} && MPLBACKEND=Agg OMP_NUM_THREADS=1 PYTHONPATH={wt} timeout 600 /venv/bin/python contract_check.py -> PASS, and the existing tests: cd {wt} && MPLBACKEND=Agg PYTHONPATH={wt} timeout 900 /venv/bin/python -m pytest -q -p no:cacheprovider --timeout=900 tests (expect 49 passed). If a clause fails, fix the edit.
Finally `git checkout -- opticomlib` and run contract_check.py once on the pristine code too (must PASS; features that do not exist there are skipped).
Reply with, for each k: the function, what changes observably, why the contract still holds, and the commands run with outcomes. Leave small_1.diff .. small_5.diff and contract_check.py in {wt}; do not commit. Never call devices.FIBER without a `timeout` wrapper and small inputs.{extra}'''

SMALL2_KINDS = """ (i) a performance optimisation whose results are identical (a loop vectorised, an invariant hoisted, a temporary avoided, a result cached under a key that contains EVERYTHING it depends on including the gv values read); (j) input coercion / normalisation (np.asarray, float()/int() after validation, numpy scalars and 0-d arrays accepted, a shared private helper that normalises an argument for two functions); (k) a deprecation shim (an old spelling or parameter name kept working with a DeprecationWarning, the new one preferred); (l) a private helper factored out of one function or shared by two, with the raise/warn sites kept but their messages unified; (m) logging / warnings / progress reporting / an extra diagnostic return behind a flag; (n) a defensive guard for degenerate inputs OUTSIDE the contract's domain (empty, NaN, zero range, zero power) that returns something sensible instead of crashing or looping; (o) a library call replaced by an equivalent one (np.kron vs np.repeat, .sum() vs np.add.reduce, np.where vs boolean-mask store, math vs numpy on scalars, f-strings vs format) with identical results; (p) a changed dtype / container of an intermediate or of a part of the result the contract does not fix (float32 never; e.g. list -> tuple, int64 -> intp, python float -> np.float64)."""

SMALL2_TMPL = SMALL_TMPL.replace("FIVE SEPARATE", "SIX SEPARATE").replace("each 3-25 changed lines", "each 5-40 changed lines").replace("(3-25 changed lines)", "(5-40 changed lines)") \
    .replace("Make the five commits of DIFFERENT kinds", "Make the six commits of DIFFERENT kinds").replace("for k = 1..5", "for k = 1..6").replace("small_1.diff .. small_5.diff", "small_1.diff .. small_6.diff").replace("reuse for all five", "reuse for all six")
_a = SMALL2_TMPL.index(" (a) a new optional parameter")
_b = SMALL2_TMPL.index("Keep the code clean and plausible (Python 3.12); no comments that announce")
SMALL2_TMPL = SMALL2_TMPL[:_a] + SMALL2_KINDS + "\n" + SMALL2_TMPL[_b:]

AUDIT_TMPL = '''You are auditing a Python library against ONE stated property. Work ONLY inside the git worktree {wt} (a checkout of the optical-communications simulation library "opticomlib"). Do not read or write anything under /verif or /repo. Do NOT modify the library or its tests.

The property:

ID: {id}
TITLE: {title}
STATEMENT: {statement}
QUANTIFIED OVER: {quant}

Your job: find inputs INSIDE the quantified domain for which the CURRENT code violates a clause of the statement - genuine defects, not disagreements about wording. Read the relevant source in {wt}/opticomlib/ first, list the clauses, and for every clause think about the CORNERS of the quantified domain where code usually breaks: the smallest and largest sizes, length 1 / 2 / odd lengths, a count or lag or delay of exactly 0, the first and the last element, exact equality at a boundary, a parameter at the inclusive end of its range, one vs two polarisations, noise present vs absent, every accepted container type, every letter case of an option, repeated calls / call order, values that make a slice bound 0 (x[:-0] is empty), integer vs float arguments, numpy scalars vs python scalars. Then write {wt}/audit_{id}.py: a script that exercises every clause over many sampled AND systematically enumerated corner inputs (fixed seeds, exact comparison where the statement is exact, the stated tolerance otherwise), prints one line per violated (clause, input) and exits 1 if any clause is violated, prints PASS and exits 0 otherwise. It must import `opticomlib` from PYTHONPATH (delete the script's own directory from sys.path[0] first). Run it: cd {wt} && MPLBACKEND=Agg OMP_NUM_THREADS=1 PYTHONPATH={wt} timeout 900 /venv/bin/python audit_{id}.py

For every violation you find: make sure it is inside the quantified domain as written (quote the words of the quantifier that cover it), reduce it to a minimal reproduction {wt}/finding_{id}_k.py (k = 1, 2, ...; 5-20 lines; exits 1 and prints what was expected and what came out), and say in one paragraph which line(s) of the library cause it and what a minimal fix would be (do not apply it). A statistical clause counts as violated only if it fails far outside sampling error (say 6 sigma) for several seeds. If you find nothing after a thorough search, say so - that is a perfectly good outcome; do not stretch the statement.

Reply with: the list of clauses you checked and how, then the findings (or "no findings"), each with its finding_{id}_k.py path, the cause and the suggested fix. Never call devices.FIBER without a `timeout` wrapper and small inputs.{extra}'''

NEUTRAL_TMPL = '''You are helping test a static-analysis tool for false alarms. Work ONLY inside the git worktree {wt} (a checkout of the Python library "opticomlib"). Do not read or write anything under /verif or /repo.

Your job: REFACTOR the following functions WITHOUT changing their behaviour in any way: in {file}: {funcs}.

{style}Do NOT: change results for ANY input (including edge cases, dtypes, exceptions raised and their types/messages, warnings, aliasing/copy behaviour, random-number consumption order), add caching/memoisation, change existing public parameters or their defaults, touch tests, or change docstrings substantially. Keep the code clean and plausible; the interpreter is Python 3.12.

Steps:
1. Read the source, then make the edits in {wt}.
2. Save the diff: cd {wt} && git diff -- opticomlib > {wt}/refactor.diff . Do NOT use `git stash`; to get the original code use `git apply -R refactor.diff` and `git apply refactor.diff` to restore.
3. Write {wt}/equiv.py: a script that imports BOTH versions and compares them on many inputs with fixed numpy seeds (including edge cases: odd lengths, one/two polarisations, noise present/absent, scalars/lists/strings/arrays, invalid arguments -> same exception type and message). Practical way: copy the ORIGINAL package to {wt}/orig_pkg/opticomlib (after `git apply -R`), then restore the refactor, and in equiv.py run the original in a subprocess with {wt}/orig_pkg first on sys.path and exchange results through pickle; import the refactored one normally (PYTHONPATH={wt}). Re-seed np.random identically before each paired call. It must print PASS and exit 0. Run: cd {wt} && MPLBACKEND=Agg PYTHONPATH={wt} timeout 300 /venv/bin/python equiv.py
4. Run the existing tests with the refactor: cd {wt} && MPLBACKEND=Agg PYTHONPATH={wt} timeout 900 /venv/bin/python -m pytest -q -p no:cacheprovider --timeout=900 tests  (expect 49 passed).
5. If any comparison differs, FIX THE REFACTOR (not the comparison) until everything is identical; regenerate refactor.diff at the end.
6. Reply with a numbered list of the edits you made (function: what), and the commands run with outcomes. Leave refactor.diff and equiv.py in {wt}; do not commit. Never call devices.FIBER without a `timeout` wrapper and small inputs.{extra}'''

LAB_NOTE = "\nNote: opticomlib.lab imports pyvisa (installed); PPG3204() without an address runs in dry-run mode and prints each command instead of sending it - a demo can capture stdout or monkeypatch PPG3204._query to record commands. Test the driver with a fake instrument object (no hardware)."


def worktree(wt):
    if not os.path.exists(wt):
        subprocess.check_call(['git', '-C', '/repo', 'worktree', 'add', '-q', '--detach', wt, 'HEAD'])


def main():
    kind, d = sys.argv[1], sys.argv[2]
    os.makedirs(d, exist_ok=True)
    if kind == "seeds":
        base = sys.argv[sys.argv.index("--base") + 1] if "--base" in sys.argv else None
        steer = STEERS.get(sys.argv[sys.argv.index("--steer") + 1], "") if "--steer" in sys.argv else ""
        props = {json.loads(l)['id']: json.loads(l) for l in open('/verif/properties.jsonl')}
        seeds = {}
        for n in sorted(os.listdir('/verif/seeded')):
            sd = f'/verif/seeded/{n}'
            if os.path.isdir(sd):
                m = json.load(open(f'{sd}/meta.json'))
                seeds.setdefault(m['property'], []).append((n, m.get('needs_to_manifest', '')))
        for pid, p in sorted(props.items()):
            wt = f'{d}/{pid}'
            fresh = not os.path.exists(wt)
            worktree(wt)
            if fresh:
                if base:
                    subprocess.check_call(['git', '-C', wt, 'apply', os.path.join('/verif', base)], stderr=subprocess.DEVNULL)
                os.makedirs(f'{wt}/base_pkg', exist_ok=True)
                subprocess.check_call(['cp', '-r', f'{wt}/opticomlib', f'{wt}/base_pkg/opticomlib'])
            prev = "; ".join(f"({n}) {needs}" for n, needs in seeds.get(pid, [])) or "(none)"
            open(f'{d}/prompt_{pid}.txt', 'w').write(SEED_TMPL.format(wt=wt, id=pid, title=p['title'], statement=p['statement'], quant=p['quantifier']['text'],
                                                                     context=BASE_CONTEXT if base else "", prev=prev, steer=steer, extra=LAB_NOTE if pid == "C20" else ""))
    elif kind == "small":
        props = {json.loads(l)['id']: json.loads(l) for l in open('/verif/properties.jsonl')}
        for g, (f, fu) in GROUPS.items():
            wt = f'{d}/{g}'
            worktree(wt)
            txt = "\n\n".join(f"[{pid}] {props[pid]['title']}\nSTATEMENT: {props[pid]['statement']}\nQUANTIFIED OVER: {props[pid]['quantifier']['text']}" for pid in GROUP_PROPS[g])
            open(f'{d}/prompt_{g}.txt', 'w').write(SMALL_TMPL.format(wt=wt, file=f, funcs=fu, props=txt, extra=LAB_NOTE if g == "lab" else ""))
    elif kind == "audit":
        props = {json.loads(l)['id']: json.loads(l) for l in open('/verif/properties.jsonl')}
        for pid, pr in props.items():
            wt = f'{d}/{pid}'
            worktree(wt)
            open(f'{d}/prompt_{pid}.txt', 'w').write(AUDIT_TMPL.format(wt=wt, id=pid, title=pr['title'], statement=pr['statement'], quant=pr['quantifier']['text'], extra=LAB_NOTE if pid == "C20" else ""))
    elif kind == "audit2":
        props = {json.loads(l)['id']: json.loads(l) for l in open('/verif/properties.jsonl')}
        note = ("\n\nThis is a SECOND audit. `git log --oneline | grep fix:` in the worktree lists defects already found and repaired - do not report those again. "
                "Also already known and NOT of interest: numpy scalar types (np.int64, np.float32) refused with TypeError by parameters documented as int/float; wrap-around of narrow "
                "integer dtypes (int8/int16/uint8 arrays) in arithmetic; zero-length fibres; corners where the statement itself cannot hold mathematically. "
                "This time go about it differently: read EVERY function the statement touches line by line, and for each branch, slice, division, comparison, isinstance test, default value and "
                "loop bound ask which in-domain input takes it to the wrong place (an untested branch, an operator-precedence slip, a variable used before assignment on some path, a mutable default, "
                "an off-by-one at a block boundary, a condition that is always true/false, a sibling function that handles a case this one forgets, inconsistent validation vs. dispatch, "
                "a documented option spelling that is not honoured, state left behind by an earlier call). Prefer silent wrong answers over loud exceptions, but report both.")
        for pid, pr in props.items():
            wt = f'{d}/{pid}'
            worktree(wt)
            open(f'{d}/prompt_{pid}.txt', 'w').write(AUDIT_TMPL.format(wt=wt, id=pid, title=pr['title'], statement=pr['statement'], quant=pr['quantifier']['text'], extra=(LAB_NOTE if pid == "C20" else "") + note))
    elif kind == "audit3":
        props = {json.loads(l)['id']: json.loads(l) for l in open('/verif/properties.jsonl')}
        note = ("\n\nThis is a THIRD audit. `git log --oneline | grep fix:` in the worktree lists the defects already found and repaired (two earlier audits) - do not report those again. "
                "Also already known, do NOT report: numpy scalar types refused with TypeError by parameters documented as int/float; wrap-around of narrow integer dtypes; zero-length fibres; "
                "the odd edge extension of sosfiltfilt in LPF/BPF/PD (end samples unfiltered, short-record tones gaining power, PD noise variance at narrow bandwidth); the soft-decision BER computed as "
                "1 - quad(...) losing accuracy below 1e-8; FIBER's beta2/gamma relative sign; noise components left unpropagated by DM/FIBER/FBG/SYNC; tab/newline separators and the empty string in 0/1 text; "
                "a numpy value on the LEFT of a comparison with a signal; gv keywords that collide with gv's own attribute names; PD with BW >= fs/2; NaN arguments. "
                "This time use RELATIONS instead of reference values: (1) every identity the statement asserts between two calls (round trips, compositions, a sibling that must agree, a scalar call vs the "
                "same value in a length-1 array, one call vs the same work split into two calls, a two-polarisation call vs two one-polarisation calls, an object with noise=0 vs without noise, "
                "an argument given positionally vs by keyword vs left at its documented default); (2) invariance under what the statement says does not matter (units/scale, offset, order of calls, "
                "container type, dtype among float64/complex128/int64, C vs Fortran order, a view vs a copy, read-only input arrays); (3) monotonicity/continuity where the statement implies it "
                "(sweep one parameter finely across the WHOLE stated range including both inclusive ends and look for jumps, NaN, sign changes). Generate the structured inputs systematically "
                "(all small cases exhaustively, then seeded random ones). Prefer silent wrong answers over loud exceptions, but report both.")
        for pid, pr in props.items():
            wt = f'{d}/{pid}'
            worktree(wt)
            open(f'{d}/prompt_{pid}.txt', 'w').write(AUDIT_TMPL.format(wt=wt, id=pid, title=pr['title'], statement=pr['statement'], quant=pr['quantifier']['text'], extra=(LAB_NOTE if pid == "C20" else "") + note))
    elif kind == "audit4":
        props = {json.loads(l)['id']: json.loads(l) for l in open('/verif/properties.jsonl')}
        note = ("\n\nThis is a FOURTH audit. `git log --oneline | grep fix:` in the worktree lists the defects already found and repaired (three earlier audits) - do not report those again. "
                "Also already known, do NOT report: numpy scalar types refused with TypeError by parameters documented as int/float; wrap-around of narrow integer dtypes; zero-length fibres; "
                "the odd edge extension of sosfiltfilt in LPF/BPF/PD (end samples, short-record tones, PD noise variance at narrow bandwidth); the soft-decision BER computed as 1 - quad(...) below 1e-8; "
                "FIBER's beta2/gamma relative sign; noise components left unpropagated by DM/FIBER/FBG/SYNC; tab/newline separators and the empty string in 0/1 text; a numpy value on the LEFT of a "
                "comparison with a signal; `signal > x` comparing moduli; gv keywords colliding with gv's own names; PD with BW >= fs/2; NaN arguments; filters with BW/fs below 1e-5; a waveform delayed "
                "by a fraction of a slot against the sample grid; utils.dec2bin given a 0-d array; SYNC with a record exactly one pattern long; amplitudes near 1e154; MZM/PM with a length-1 drive array. "
                "This time attack the EDGES OF THE QUANTIFIED DOMAIN and the SMALLEST and MOST DEGENERATE inputs that are still inside it: the shortest record the quantifier allows and the one just "
                "above it (one symbol, one slot pair, 17 samples, one block, one block plus one bit), odd vs even counts of everything (samples, slots, symbols, sps, blocks), both inclusive ends of every "
                "stated parameter range and values a hair inside them, parameters at which two branches of the code meet (exactly equal sigmas, exactly zero loss, M = 2 and M = 256, order 7 and 31, "
                "n = 1 bit, ER = inf, T = 0), data with extreme composition (a single 1 in zeros, a single 0 in ones, all transitions on one slot parity, a level populated by ONE sample), "
                "perfectly noise-free inputs where an estimated spread is exactly 0, and records a little longer than an internal cap (nslots, block size, padding length). For every packaged routine "
                "that estimates something from data and then decides with it, ask what happens when the estimate is computed from very few points. Generate these cases systematically (exhaustively for "
                "small sizes). Prefer silent wrong answers over loud exceptions, but report both. Several audits run on this machine at once: prefix every python command with "
                "OMP_NUM_THREADS=1 OPENBLAS_NUM_THREADS=1.")
        for pid, pr in props.items():
            wt = f'{d}/{pid}'
            worktree(wt)
            open(f'{d}/prompt_{pid}.txt', 'w').write(AUDIT_TMPL.format(wt=wt, id=pid, title=pr['title'], statement=pr['statement'], quant=pr['quantifier']['text'], extra=(LAB_NOTE if pid == "C20" else "") + note))
    elif kind == "small3":
        props = {json.loads(l)['id']: json.loads(l) for l in open('/verif/properties.jsonl')}
        note = ("\n\nAdditional requirement for this round: `git log --oneline | grep fix:` lists recent repairs. At least THREE of your five commits must edit a function (or the very lines) "
                "that one of those repairs touched - a new option next to the repaired code, an extra accepted input kind handled by the repaired branch, a changed message of the repaired guard, "
                "extra validation around it - while keeping the repair's effect fully intact (the input the repair was made for must still behave as repaired).")
        for g, (f, fu) in GROUPS.items():
            wt = f'{d}/{g}'
            worktree(wt)
            txt = "\n\n".join(f"[{pid}] {props[pid]['title']}\nSTATEMENT: {props[pid]['statement']}\nQUANTIFIED OVER: {props[pid]['quantifier']['text']}" for pid in GROUP_PROPS[g])
            open(f'{d}/prompt_{g}.txt', 'w').write(SMALL_TMPL.format(wt=wt, file=f, funcs=fu, props=txt, extra=(LAB_NOTE if g == "lab" else "") + note))
    elif kind == "small2":
        props = {json.loads(l)['id']: json.loads(l) for l in open('/verif/properties.jsonl')}
        for g, (f, fu) in GROUPS.items():
            wt = f'{d}/{g}'
            worktree(wt)
            txt = "\n\n".join(f"[{pid}] {props[pid]['title']}\nSTATEMENT: {props[pid]['statement']}\nQUANTIFIED OVER: {props[pid]['quantifier']['text']}" for pid in GROUP_PROPS[g])
            open(f'{d}/prompt_{g}.txt', 'w').write(SMALL2_TMPL.format(wt=wt, file=f, funcs=fu, props=txt, extra=LAB_NOTE if g == "lab" else ""))
    elif kind == "feature":
        props = {json.loads(l)['id']: json.loads(l) for l in open('/verif/properties.jsonl')}
        for g, (f, fu) in GROUPS.items():
            wt = f'{d}/{g}'
            worktree(wt)
            txt = "\n\n".join(f"[{pid}] {props[pid]['title']}\nSTATEMENT: {props[pid]['statement']}\nQUANTIFIED OVER: {props[pid]['quantifier']['text']}" for pid in GROUP_PROPS[g])
            open(f'{d}/prompt_{g}.txt', 'w').write(FEATURE_TMPL.format(wt=wt, file=f, funcs=fu, props=txt, extra=LAB_NOTE if g == "lab" else ""))
    else:
        style = STYLES[sys.argv[3]]
        for g, (f, fu) in GROUPS.items():
            wt = f'{d}/{g}'
            worktree(wt)
            open(f'{d}/prompt_{g}.txt', 'w').write(NEUTRAL_TMPL.format(wt=wt, file=f, funcs=fu, style=style, extra=LAB_NOTE if g == "lab" else ""))
    print("prepared", d)


if __name__ == "__main__":
    main()
