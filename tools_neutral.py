#!/usr/bin/env python3
"""run checks against a behaviour-preserving refactor held as a diff (applied to an in-memory copy of the sources).
usage: tools_neutral.py <diff> [props...]   -- prints every VIOLATION / UNKNOWN; a clean refactor must be silent"""
import os, sys
sys.path.insert(0, os.path.dirname(os.path.abspath(__file__)))
from ocv.__main__ import analyse
from ocv.core import VIOLATION, UNKNOWN


from ocv.patching import patched_sources  # noqa: E402  (pure-Python unified-diff application to in-memory sources)


if __name__ == "__main__":
    diff = sys.argv[1]
    props = sys.argv[2:] or [f"C{i:02d}" for i in range(1, 21)]
    src = patched_sources(diff)
    assert src is not None, "patch does not apply"
    bad = 0
    for p in props:
        try:
            mod, ctx = analyse(p, "/repo", "quick", sources=src)
        except Exception as ex:
            import traceback; traceback.print_exc()
            print(p, "CRASH", type(ex).__name__, str(ex)[:200]); bad += 1; continue
        for r in ctx.results:
            if r.status in (VIOLATION, UNKNOWN):
                bad += 1
                print(p, r.status, r.rule, r.func, r.construct[:150], "--", r.msg[:250])
    print("noisy results:", bad)
