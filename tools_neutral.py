#!/usr/bin/env python3
"""run checks against a behaviour-preserving refactor held as a diff (applied to an in-memory copy of the sources).
usage: tools_neutral.py <diff> [props...]   -- prints every VIOLATION / UNKNOWN; a clean refactor must be silent"""
import os, shutil, subprocess, sys, tempfile
sys.path.insert(0, os.path.dirname(os.path.abspath(__file__)))
from ocv.__main__ import analyse
from ocv.core import VIOLATION, UNKNOWN


def patched_sources(diff, root="/repo"):
    tmp = tempfile.mkdtemp(prefix="ocv_neutral_")
    try:
        shutil.copytree(os.path.join(root, "opticomlib"), os.path.join(tmp, "opticomlib"))
        r = subprocess.run(["patch", "-p1", "-s", "-d", tmp, "-i", os.path.abspath(diff)], capture_output=True, text=True)
        if r.returncode != 0:
            return None
        out = {}
        for fn in os.listdir(os.path.join(tmp, "opticomlib")):
            if fn.endswith(".py"):
                a = open(os.path.join(tmp, "opticomlib", fn), encoding="utf-8").read()
                b = open(os.path.join(root, "opticomlib", fn), encoding="utf-8").read()
                if a != b:
                    out[fn[:-3]] = a
        return out
    finally:
        shutil.rmtree(tmp, ignore_errors=True)


if __name__ == "__main__":
    diff = sys.argv[1]
    props = sys.argv[2:] or [f"C{i:02d}" for i in range(1, 21)]
    src = patched_sources(diff)
    assert src is not None, "patch does not apply"
    bad = 0
    for p in props:
        try:
            mod, ctx = analyse(p, "/repo", "quick", sources=src)
        except Exception as ex:
            import traceback; traceback.print_exc()
            print(p, "CRASH", type(ex).__name__, str(ex)[:200]); bad += 1; continue
        for r in ctx.results:
            if r.status in (VIOLATION, UNKNOWN):
                bad += 1
                print(p, r.status, r.rule, r.func, r.construct[:150], "--", r.msg[:250])
    print("noisy results:", bad)
