#!/usr/bin/env python3
"""every neutral/*.diff against every check, in parallel; prints a summary (rule counts) - all must be silent.
usage: tools_neutral_all.py [substring] [-v]"""
import glob, os, sys
from collections import Counter
from concurrent.futures import ProcessPoolExecutor
sys.path.insert(0, os.path.dirname(os.path.abspath(__file__)))
PROPS = [f"C{i:02d}" for i in range(1, 21)]


def one(args):
    path, prop = args
    from ocv.__main__ import analyse
    from ocv.core import VIOLATION, UNKNOWN
    from ocv.patching import stored_sources, added
    src = stored_sources(path)
    if src is None:
        return path, prop, [("nopatch", "", "", "")]
    try:
        mod, ctx = analyse(prop, "/repo", "quick", sources=src)
    except Exception as ex:
        return path, prop, [("CRASH", type(ex).__name__, str(ex)[:200], "")]
    return path, prop, [(r.status, r.rule, r.construct[:140], r.msg[:200]) for r in added(prop, ctx.results, path) if r.status in (VIOLATION, UNKNOWN)]


if __name__ == "__main__":
    args = [a for a in sys.argv[1:] if a != "-v"]
    verbose = "-v" in sys.argv
    flt = args[0] if args else ""
    diffs = sorted(d for d in glob.glob("/verif/neutral/*.diff") if flt in os.path.basename(d))
    # a fresh pool per batch: the interning tables of the value forms grow with every analysed variant (a worker that ran 300 of them held 7 GB)
    class _Batched:
        def __enter__(self):
            return self

        def __exit__(self, *a):
            return False

        def map(self, fn, tasks, chunksize=1):
            tasks = list(tasks)
            for i in range(0, len(tasks), 320):
                with ProcessPoolExecutor(max_workers=16) as pool:
                    yield from pool.map(fn, tasks[i:i + 320], chunksize=chunksize)
    with _Batched() as ex:
        res = list(ex.map(one, [(d, p) for d in diffs for p in PROPS], chunksize=2))
    tot = 0
    for d in diffs:
        rows = [(p, x) for (dd, p, xs) in res if dd == d for x in xs]
        c = Counter((p, x[1]) for p, x in rows)
        tot += len(rows)
        print(f"{os.path.basename(d):22s} noisy={len(rows):3d} ", dict(c) if rows else "")
        if verbose:
            for p, x in rows:
                print("     ", p, x[0], x[1], x[2], "--", x[3])
    print("total noisy:", tot)
