#!/bin/sh
# full regression of the verification machinery (not registered in MANIFEST: a maintainer's tool)
#   sh tools_regress.sh            thorough tier of all 20 checks in parallel + the three stored corpora
cd "$(dirname "$0")"
ls ocv/props | sed -n 's/^c\([0-9][0-9]\)\.py$/C\1/p' | xargs -P 8 -I{} sh -c './vcheck {} --tier thorough --no-evidence > /tmp/regress_{}.out 2>&1; echo "{} exit=$? $(grep -c KNOWN-FINDING /tmp/regress_{}.out) known $(grep -c "ANALYSIS-ERROR\|^VIOLATION" /tmp/regress_{}.out) alarms"' | sort
/venv/bin/python tools_seeded_all.py | tail -1
/venv/bin/python tools_neutral_all.py | tail -1
/venv/bin/python tools_feature_all.py | tail -1
