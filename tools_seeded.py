#!/usr/bin/env python3
"""apply a seeded patch to /repo, run every check (no evidence written), undo. usage: tools_seeded.py <patch> [props...]"""
import subprocess, sys, json, os
patch = os.path.abspath(sys.argv[1])
props = sys.argv[2:] or [f"C{i:02d}" for i in range(1, 21)]
assert subprocess.run(["git", "-C", "/repo", "status", "--porcelain", "--untracked-files=no"], capture_output=True, text=True).stdout.strip() == "", "repo dirty"
subprocess.check_call(["git", "-C", "/repo", "apply", patch])
try:
    res = {}
    for p in props:
        r = subprocess.run(["./vcheck", p, "--no-evidence"], cwd="/verif", capture_output=True, text=True)
        lines = [l for l in r.stdout.splitlines() if not l.startswith("VIOLATION") and not l.startswith("[")]
        res[p] = (r.returncode, lines[:4])
    for p, (rc, lines) in res.items():
        if rc != 0:
            print(p, "exit", rc)
            for l in lines:
                print("   ", l[:300])
    print("detected by:", [p for p, (rc, _) in res.items() if rc == 1], " undecided:", [p for p, (rc, _) in res.items() if rc == 2])
finally:
    subprocess.check_call(["git", "-C", "/repo", "checkout", "--", "."])
