#!/usr/bin/env python3
"""run the owning property's check (and all others) against every stored seeded change; print a matrix"""
import json, os, subprocess, sys
rows = []
for name in sorted(n for n in os.listdir("/verif/seeded") if os.path.isdir(f"/verif/seeded/{n}")):
    d = f"/verif/seeded/{name}"
    meta = json.load(open(f"{d}/meta.json"))
    subprocess.check_call(["git", "-C", "/repo", "apply", f"{d}/patch.diff"])
    try:
        det, und = [], []
        for i in range(1, 21):
            p = f"C{i:02d}"
            r = subprocess.run(["./vcheck", p, "--no-evidence"], cwd="/verif", capture_output=True, text=True)
            if r.returncode == 1:
                det.append(p)
            elif r.returncode == 2:
                und.append(p)
    finally:
        subprocess.check_call(["git", "-C", "/repo", "checkout", "--", "."])
    own = meta["property"]
    rows.append((name, own, own in det, det, und))
    print(f"{name:45s} own={own} {'CAUGHT' if own in det else 'MISSED'} by={det} undecided={und}", flush=True)
json.dump([{"seed": r[0], "property": r[1], "caught_by_own_check": r[2], "checks_reporting": r[3], "undecided": r[4]} for r in rows], open("/verif/seeded/RESULTS.json", "w"), indent=1)
