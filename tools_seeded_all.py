#!/usr/bin/env python3
"""run every check against every stored seeded change (patch applied to an in-memory copy of the sources; /repo is never touched);
prints a matrix and writes seeded/RESULTS.json.  usage: tools_seeded_all.py [name-substring]"""
import json, os, sys
from concurrent.futures import ProcessPoolExecutor
sys.path.insert(0, os.path.dirname(os.path.abspath(__file__)))
from ocv.patching import stored_sources, added

PROPS = [f"C{i:02d}" for i in range(1, 21)]


def one(args):
    name, prop = args
    from ocv.__main__ import analyse
    from ocv.core import VIOLATION, UNKNOWN
    src = stored_sources(f"/verif/seeded/{name}")
    if src is None:
        return name, prop, "nopatch"
    try:
        mod, ctx = analyse(prop, "/repo", "quick", sources=src)
    except Exception as ex:
        return name, prop, "crash:" + type(ex).__name__
    new = added(prop, ctx.results, f"/verif/seeded/{name}")            # what the change adds to the reports on the bare corpus snapshot
    if any(r.status == VIOLATION for r in new):
        return name, prop, "violation"
    if any(r.status == UNKNOWN for r in new):
        return name, prop, "undecided"
    return name, prop, "ok"


if __name__ == "__main__":
    flt = sys.argv[1] if len(sys.argv) > 1 else ""
    names = sorted(n for n in os.listdir("/verif/seeded") if os.path.isdir(f"/verif/seeded/{n}") and flt in n)
    tasks = [(n, p) for n in names for p in PROPS]
    # a fresh pool per batch: the interning tables of the value forms grow with every analysed variant (a worker that ran 300 of them held 7 GB)
    class _Batched:
        def __enter__(self):
            return self

        def __exit__(self, *a):
            return False

        def map(self, fn, tasks, chunksize=1):
            tasks = list(tasks)
            for i in range(0, len(tasks), 320):
                with ProcessPoolExecutor(max_workers=16) as pool:
                    yield from pool.map(fn, tasks[i:i + 320], chunksize=chunksize)
    with _Batched() as ex:
        res = list(ex.map(one, tasks, chunksize=4))
    by = {}
    for n, p, st in res:
        by.setdefault(n, {})[p] = st
    rows = []
    for n in names:
        own = json.load(open(f"/verif/seeded/{n}/meta.json"))["property"]
        det = [p for p in PROPS if by[n][p] == "violation"]
        und = [p for p in PROPS if by[n][p] not in ("violation", "ok")]
        rows.append({"seed": n, "property": own, "caught_by_own_check": own in det, "checks_reporting": det, "undecided": und})
        print(f"{n:45s} own={own} {'CAUGHT' if own in det else 'MISSED'} by={det} undecided={[(p, by[n][p]) for p in und]}", flush=True)
    if not flt:
        json.dump(rows, open("/verif/seeded/RESULTS.json", "w"), indent=1)
    print("missed:", [r["seed"] for r in rows if not r["caught_by_own_check"]])
