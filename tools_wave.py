#!/usr/bin/env python3
"""evaluate candidate seeded changes of a wave directory (<dir>/Cxx/patch_Cxx.diff) in memory: which checks report them.
usage: tools_wave.py <dir> [Cxx ...]"""
import os, sys
from concurrent.futures import ProcessPoolExecutor
sys.path.insert(0, os.path.dirname(os.path.abspath(__file__)))
PROPS = [f"C{i:02d}" for i in range(1, 21)]


def one(args):
    d, owner, prop = args
    from ocv.__main__ import analyse
    from ocv.core import VIOLATION, UNKNOWN
    from ocv.patching import patched_sources
    base = patched_sources(os.environ["WAVE_BASE"]) if os.environ.get("WAVE_BASE") else None
    src = patched_sources(f"{d}/{owner}/patch_{owner}.diff", base=base)
    if src is None:
        return owner, prop, "nopatch", []
    try:
        mod, ctx = analyse(prop, "/repo", "quick", sources=src)
    except Exception as ex:
        return owner, prop, "crash:" + type(ex).__name__ + ":" + str(ex)[:100], []
    from ocv.core import load_known
    known = {(k.get("rule"), k.get("function"), " ".join(k.get("construct", "").split())) for k in load_known() if k.get("property") == prop and k.get("status") == "open"}
    v = [f"{r.rule} {r.construct[:110]} -- {r.msg[:160]}" for r in ctx.results if r.status == VIOLATION and (r.rule, r.func, r.construct) not in known]
    u = [f"{r.rule} {r.construct[:110]} -- {r.msg[:160]}" for r in ctx.results if r.status == UNKNOWN]
    return owner, prop, ("violation" if v else ("undecided" if u else "ok")), (v or u)[:2]


if __name__ == "__main__":
    d = sys.argv[1]
    owners = sys.argv[2:] or [p for p in PROPS if os.path.exists(f"{d}/{p}/patch_{p}.diff")]
    tasks = [(d, o, p) for o in owners for p in PROPS]
    with ProcessPoolExecutor(max_workers=16) as ex:
        res = list(ex.map(one, tasks, chunksize=2))
    by = {}
    for o, p, st, msgs in res:
        by.setdefault(o, {})[p] = (st, msgs)
    for o in owners:
        det = [p for p in PROPS if by[o][p][0] == "violation"]
        oth = [(p, by[o][p][0]) for p in PROPS if by[o][p][0] not in ("violation", "ok")]
        print(f"{o}: {'CAUGHT' if o in det else 'MISSED'} by={det} other={oth}")
        for m in by[o][o][1]:
            print("     ", m)
